package ledger

// C23 — Application storage accounting matches stored state.
//
// Engine E-SEQ (explicit-state BFS over operation sequences), level model_checking.
//
// System under test: the real BlockEvaluator on a real in-memory Ledger running one
// "dispatcher" application, assembled by the real TEAL assembler, whose first argument
// selects a storage operation. Every operation is one application-call transaction.
//
// Alphabets
//   box : box_create(n,size), box_put(n,len), box_resize(n,size) for n in {"a","bb"},
//         size/len in {0,1,8}; box_replace(n) (1 byte at 0); box_splice(n) (2 bytes over
//         1 at 0); box_del(n); delete-app; END-BLOCK.
//   kv  : create-app with global=local schema (ints,bytes) in {0,1,2}^2;
//         app_global_put uint / bytes and app_global_del for keys {k1,k2,k3};
//         app_local_put uint / bytes and app_local_del for keys {k1,k2,k3} by the two
//         accounts A, B on their own local state (quick tier: B only puts k1); opt-in /
//         close-out / clear-state of A, B; delete-app; END-BLOCK; application UPDATE carrying
//         a new global schema (ints,bytes) in {0..3}^2 (accepted iff the stored keys still
//         fit per type; (0,0) = no resize) - in the "kv+update" plans.
//   family: a reduced box alphabet performed both by the dispatcher and by a sibling app of
//         the same creator through app_box_create/put/resize/splice/del on the
//         dispatcher's boxes, plus app_params_set AppFamilyBoxAccess on/off (the sibling
//         may write only while it is on); the accounting must stay with the dispatcher.
// Packaging modes (separate explorations)
//   "groups": every operation is its own group in the block under construction; the
//         END-BLOCK operation (at most once per trace) generates the block, validates it
//         (Ledger.Validate), adds it to a private copy of the ledger and continues in the
//         next block, so that counters and key/values round-trip through the ledger.
//   "onegroup": the whole trace is ONE atomic transaction group, re-submitted from scratch
//         to a fresh evaluator at every step (a rejected step leaves the group as it was).
// Environments: "app" (dispatcher pre-created and funded in committed blocks, no boxes),
//   "flushed" (same plus boxes a = 8 bytes and bb = 0 bytes created earlier and flushed
//   from the in-memory deltas to the account database), "bare" (no application; kv only),
//   "family" (dispatcher + sibling app pre-created, FamilyBoxAccess initially off).
//
// Oracle. A reference state (c23ref: boxes as byte strings, key -> type maps, schema)
// written from the TEAL opcode documentation says accept/reject for every step; the real
// verdict is compared both ways ("a group exceeding a schema is rejected" and a group
// within it is not). After every step the block is generated from a discarded copy of the
// trace and, from its state delta + ledger lookups:
//   - every candidate box name is looked up; the app account's recorded TotalBoxes /
//     TotalBoxBytes must equal the number / sum(len(name)+len(value)) of the boxes that
//     actually exist (implementation against itself), and boxes must equal the reference;
//   - global and local key/values must equal the reference, the number of uint / bytes
//     keys must not exceed the schema recorded next to them, and the holder's
//     TotalAppSchema must equal the sum of the schemas it currently holds.
// State key = reference state (+ reference state at the block boundary); sound because
// the Final check proves the implementation state equal to it for every explored state.
//
// Not covered: inner-transaction callers, foreign/family box access, box sizes above 8,
// box read/write budget exhaustion, MBR failures (accounts are rich), app update.
//
// Mutants, all DETECTED by the quick tier (bin/mut ... --only):
//   M1 applications.go DelBox: TotalBoxBytes decremented by len(value) only          (1 step)
//   M2 appcow.go updateCounts: `if bok {` -> `if bok && (!aok || bv.Type == av.Type) {`, i.e. no
//      decrement of the old type on a type change     (put bytes, END-BLOCK, put uint, put bytes)
//   M3 appcow.go applyChild: `lsd.counts = child.counts` removed                    (3 steps)
//   M4 applications.go NewBox: TotalBoxBytes incremented by size only (name forgotten)
//   M5 appcow.go checkCounts: byte-slice limit `> maxCounts.NumByteSlice+1` (off by one, 2 steps)

// Independent seeded changes (/verif/seeded): C23-A (SetAppGlobalSchema skips checkCounts when
// the new schema's total is not smaller, so an update may shrink one type below its usage)
// was MISSED by the first version (no application update) and is DETECTED since the
// update operations were added (2 steps: global_put uint, update to (0,2)); C23-B DETECTED.

import (
	"errors"
	"fmt"
	"os"
	"path/filepath"
	"regexp"
	"runtime/debug"
	"sort"
	"strings"
	"sync"
	"sync/atomic"
	"testing"
	"time"

	"github.com/algorand/avm-abi/apps"
	"github.com/algorand/go-deadlock"

	"github.com/algorand/go-algorand/agreement"
	"github.com/algorand/go-algorand/config"
	"github.com/algorand/go-algorand/crypto"
	"github.com/algorand/go-algorand/data/basics"
	"github.com/algorand/go-algorand/data/bookkeeping"
	"github.com/algorand/go-algorand/data/committee"
	"github.com/algorand/go-algorand/data/transactions"
	"github.com/algorand/go-algorand/data/transactions/logic"
	"github.com/algorand/go-algorand/data/txntest"
	"github.com/algorand/go-algorand/ledger/eval"
	"github.com/algorand/go-algorand/ledger/ledgercore"
	ledgertesting "github.com/algorand/go-algorand/ledger/testing"
	"github.com/algorand/go-algorand/logging"
	"github.com/algorand/go-algorand/protocol"
	ve "github.com/algorand/go-algorand/verifeng"
)

const c23source = `
txn ApplicationID
bz L_ok
txn NumAppArgs
bz L_ok
txn ApplicationArgs 0; byte "gu"; ==; bnz L_gu
txn ApplicationArgs 0; byte "gb"; ==; bnz L_gb
txn ApplicationArgs 0; byte "gd"; ==; bnz L_gd
txn ApplicationArgs 0; byte "lu"; ==; bnz L_lu
txn ApplicationArgs 0; byte "lb"; ==; bnz L_lb
txn ApplicationArgs 0; byte "ld"; ==; bnz L_ld
txn ApplicationArgs 0; byte "bc"; ==; bnz L_bc
txn ApplicationArgs 0; byte "bp"; ==; bnz L_bp
txn ApplicationArgs 0; byte "bz"; ==; bnz L_bz
txn ApplicationArgs 0; byte "br"; ==; bnz L_br
txn ApplicationArgs 0; byte "bs"; ==; bnz L_bs
txn ApplicationArgs 0; byte "bd"; ==; bnz L_bd
txn ApplicationArgs 0; byte "f1"; ==; bnz L_f1
txn ApplicationArgs 0; byte "f0"; ==; bnz L_f0
err
L_f1: int 1; app_params_set AppFamilyBoxAccess; b L_ok
L_f0: int 0; app_params_set AppFamilyBoxAccess; b L_ok
L_gu: txn ApplicationArgs 1; int 7; app_global_put; b L_ok
L_gb: txn ApplicationArgs 1; byte "v"; app_global_put; b L_ok
L_gd: txn ApplicationArgs 1; app_global_del; b L_ok
L_lu: int 0; txn ApplicationArgs 1; int 7; app_local_put; b L_ok
L_lb: int 0; txn ApplicationArgs 1; byte "v"; app_local_put; b L_ok
L_ld: int 0; txn ApplicationArgs 1; app_local_del; b L_ok
L_bc: txn ApplicationArgs 1; txn ApplicationArgs 2; btoi; box_create; pop; b L_ok
L_bp: txn ApplicationArgs 1; txn ApplicationArgs 2; box_put; b L_ok
L_bz: txn ApplicationArgs 1; txn ApplicationArgs 2; btoi; box_resize; b L_ok
L_br: txn ApplicationArgs 1; int 0; byte "x"; box_replace; b L_ok
L_bs: txn ApplicationArgs 1; int 0; int 1; byte "yz"; box_splice; b L_ok
L_bd: txn ApplicationArgs 1; box_del; pop; b L_ok
L_ok: int 1
`

// c23sibling is a second application of the same creator that works on the dispatcher's
// boxes through the app_box_* opcodes (allowed while the dispatcher has FamilyBoxAccess set).
const c23sibling = `
txn ApplicationID
bz L_ok
txn NumAppArgs
bz L_ok
txn ApplicationArgs 0; byte "bc"; ==; bnz L_bc
txn ApplicationArgs 0; byte "bp"; ==; bnz L_bp
txn ApplicationArgs 0; byte "bz"; ==; bnz L_bz
txn ApplicationArgs 0; byte "br"; ==; bnz L_br
txn ApplicationArgs 0; byte "bs"; ==; bnz L_bs
txn ApplicationArgs 0; byte "bd"; ==; bnz L_bd
err
L_bc: txn Applications 1; txn ApplicationArgs 1; txn ApplicationArgs 2; btoi; app_box_create; pop; b L_ok
L_bp: txn Applications 1; txn ApplicationArgs 1; txn ApplicationArgs 2; app_box_put; b L_ok
L_bz: txn Applications 1; txn ApplicationArgs 1; txn ApplicationArgs 2; btoi; app_box_resize; b L_ok
L_br: txn Applications 1; txn ApplicationArgs 1; int 0; byte "x"; app_box_replace; b L_ok
L_bs: txn Applications 1; txn ApplicationArgs 1; int 0; int 1; byte "yz"; app_box_splice; b L_ok
L_bd: txn Applications 1; txn ApplicationArgs 1; app_box_del; pop; b L_ok
L_ok: int 1
`

// ---------------------------------------------------------------- reference model

type c23slot uint8 // 0 absent, 1 uint (value 7), 2 bytes (value "v")

type c23box struct {
	On  bool
	Val string
}

func (b c23box) String() string {
	if !b.On {
		return "-"
	}
	return fmt.Sprintf("%q", b.Val)
}

type c23ref struct {
	App  bool // application exists
	Made bool // it was created at some point of this history
	GS   [2]int
	LS   [2]int
	G    [3]c23slot
	Opt  [2]bool
	L    [2][3]c23slot
	Box  [2]c23box
	Fam  bool // dispatcher has FamilyBoxAccess set
}

const c23bogusApp = basics.AppIndex(987654321)

var c23boxNames = [2]string{"a", "bb"}
var c23keys = [3]string{"k1", "k2", "k3"}
var c23sizes = [3]int{0, 1, 8}

const (
	c23kCreate = iota
	c23kGPut
	c23kGDel
	c23kLPut
	c23kLDel
	c23kOptIn
	c23kCloseOut
	c23kClear
	c23kDelApp
	c23kBCreate
	c23kBPut
	c23kBResize
	c23kBReplace
	c23kBSplice
	c23kBDel
	c23kEndBlock
	c23kFamily
	c23kUpdate // UpdateApplication carrying a new global schema (n ints, m bytes; 0,0 = programs only)
)

var c23kindNames = [...]string{"create", "gput", "gdel", "lput", "ldel", "optin", "closeout", "clear", "delapp", "box_create", "box_put", "box_resize", "box_replace", "box_splice", "box_del", "END-BLOCK", "family_access", "update"}

type c23op struct {
	kind int
	x    int     // account (0 = A, 1 = B) or box name index
	k    int     // key index
	t    c23slot // value type for puts
	n    int     // size / length, or schema ints
	m    int     // schema bytes
	sib  bool    // box operation performed by the sibling app on the dispatcher's boxes
}

func (o c23op) String() string {
	acct := [...]string{"A", "B"}
	typ := [...]string{"", "uint", "bytes"}
	switch o.kind {
	case c23kCreate:
		return fmt.Sprintf("create(ints=%d,bytes=%d)", o.n, o.m)
	case c23kGPut:
		return fmt.Sprintf("global_put(%s,%s)", c23keys[o.k], typ[o.t])
	case c23kGDel:
		return fmt.Sprintf("global_del(%s)", c23keys[o.k])
	case c23kLPut:
		return fmt.Sprintf("local_put(%s,%s,%s)", acct[o.x], c23keys[o.k], typ[o.t])
	case c23kLDel:
		return fmt.Sprintf("local_del(%s,%s)", acct[o.x], c23keys[o.k])
	case c23kOptIn, c23kCloseOut, c23kClear:
		return fmt.Sprintf("%s(%s)", c23kindNames[o.kind], acct[o.x])
	case c23kBCreate, c23kBPut, c23kBResize:
		return fmt.Sprintf("%s%s(%q,%d)", map[bool]string{true: "sibling.app_"}[o.sib], c23kindNames[o.kind], c23boxNames[o.x], o.n)
	case c23kBReplace, c23kBSplice, c23kBDel:
		return fmt.Sprintf("%s%s(%q)", map[bool]string{true: "sibling.app_"}[o.sib], c23kindNames[o.kind], c23boxNames[o.x])
	case c23kFamily:
		return fmt.Sprintf("family_access(%d)", o.n)
	case c23kUpdate:
		return fmt.Sprintf("update(global schema ints=%d,bytes=%d)", o.n, o.m)
	}
	return c23kindNames[o.kind]
}

func c23boxAlphabet() []c23op {
	var ops []c23op
	for _, kind := range []int{c23kBCreate, c23kBPut, c23kBResize} {
		for x := 0; x < 2; x++ {
			for _, n := range c23sizes {
				ops = append(ops, c23op{kind: kind, x: x, n: n})
			}
		}
	}
	for _, kind := range []int{c23kBReplace, c23kBSplice, c23kBDel} {
		for x := 0; x < 2; x++ {
			ops = append(ops, c23op{kind: kind, x: x})
		}
	}
	ops = append(ops, c23op{kind: c23kDelApp}, c23op{kind: c23kEndBlock})
	return ops
}

// c23familyAlphabet: a reduced box alphabet performed by the dispatcher itself and by the
// sibling app, plus switching FamilyBoxAccess on/off.
func c23familyAlphabet() []c23op {
	var ops []c23op
	for _, sib := range []bool{false, true} {
		for x := 0; x < 2; x++ {
			ops = append(ops, c23op{kind: c23kBCreate, x: x, n: 0, sib: sib}, c23op{kind: c23kBCreate, x: x, n: 8, sib: sib},
				c23op{kind: c23kBPut, x: x, n: 8, sib: sib},
				c23op{kind: c23kBResize, x: x, n: 0, sib: sib}, c23op{kind: c23kBResize, x: x, n: 1, sib: sib},
				c23op{kind: c23kBSplice, x: x, sib: sib},
				c23op{kind: c23kBDel, x: x, sib: sib})
		}
	}
	ops = append(ops, c23op{kind: c23kFamily, n: 1}, c23op{kind: c23kFamily, n: 0}, c23op{kind: c23kDelApp}, c23op{kind: c23kEndBlock})
	return ops
}

// c23kvAlphabet: full=false (quick tier) gives account B only two put operations (A and B
// are symmetric; B still opts in/out and interleaves with A).
func c23kvAlphabet(full bool, updates bool) []c23op {
	var ops []c23op
	for n := 0; n <= 2; n++ {
		for m := 0; m <= 2; m++ {
			ops = append(ops, c23op{kind: c23kCreate, n: n, m: m})
		}
	}
	for k := 0; k < 3; k++ {
		ops = append(ops, c23op{kind: c23kGPut, k: k, t: 1}, c23op{kind: c23kGPut, k: k, t: 2}, c23op{kind: c23kGDel, k: k})
	}
	for x := 0; x < 2; x++ {
		ops = append(ops, c23op{kind: c23kOptIn, x: x})
	}
	for x := 0; x < 2; x++ {
		for k := 0; k < 3; k++ {
			if x == 1 && !full {
				if k == 0 {
					ops = append(ops, c23op{kind: c23kLPut, x: x, k: k, t: 1}, c23op{kind: c23kLPut, x: x, k: k, t: 2})
				}
				continue
			}
			ops = append(ops, c23op{kind: c23kLPut, x: x, k: k, t: 1}, c23op{kind: c23kLPut, x: x, k: k, t: 2}, c23op{kind: c23kLDel, x: x, k: k})
		}
	}
	for x := 0; x < 2; x++ {
		ops = append(ops, c23op{kind: c23kCloseOut, x: x}, c23op{kind: c23kClear, x: x})
	}
	ops = append(ops, c23op{kind: c23kDelApp}, c23op{kind: c23kEndBlock})
	// application update with every target global schema in {0..3}^2 (0,0 = no resize)
	for n := 0; updates && n <= 3; n++ {
		for m := 0; m <= 3; m++ {
			ops = append(ops, c23op{kind: c23kUpdate, n: n, m: m})
		}
	}
	return ops
}

func c23counts(s [3]c23slot) (u, b int) {
	for _, v := range s {
		switch v {
		case 1:
			u++
		case 2:
			b++
		}
	}
	return
}

func c23zeros(n int) string { return string(make([]byte, n)) }

// judge: must the step be accepted in state ref, and what does it do. Written from the
// opcode documentation (box_create/put/resize/replace/splice/del, app_global/local_put/del)
// and the application-call rules of the ledger spec.
func (ref *c23ref) judge(o c23op) (bool, func(r *c23ref)) {
	none := func(*c23ref) {}
	no := func() (bool, func(r *c23ref)) { return false, none }
	if o.kind == c23kCreate {
		return true, func(r *c23ref) {
			r.App, r.Made = true, true
			r.GS, r.LS = [2]int{o.n, o.m}, [2]int{o.n, o.m}
		}
	}
	if o.kind == c23kClear { // clear state works even after the app was deleted
		if !ref.Opt[o.x] {
			return no()
		}
		return true, func(r *c23ref) { r.Opt[o.x] = false; r.L[o.x] = [3]c23slot{} }
	}
	if !ref.App {
		return no()
	}
	if o.sib && !ref.Fam {
		return no() // another app may write the dispatcher's boxes only while FamilyBoxAccess is set
	}
	switch o.kind {
	case c23kFamily:
		return true, func(r *c23ref) { r.Fam = o.n != 0 }
	case c23kUpdate:
		if o.n == 0 && o.m == 0 {
			return true, none // programs only, the schema stays
		}
		// the new schema must still hold what is stored, per type
		if u, b := c23counts(ref.G); u > o.n || b > o.m {
			return no()
		}
		return true, func(r *c23ref) { r.GS = [2]int{o.n, o.m} }
	case c23kGPut:
		g := ref.G
		g[o.k] = o.t
		if u, b := c23counts(g); u > ref.GS[0] || b > ref.GS[1] {
			return no()
		}
		return true, func(r *c23ref) { r.G[o.k] = o.t }
	case c23kGDel:
		return true, func(r *c23ref) { r.G[o.k] = 0 }
	case c23kLPut:
		if !ref.Opt[o.x] {
			return no()
		}
		l := ref.L[o.x]
		l[o.k] = o.t
		if u, b := c23counts(l); u > ref.LS[0] || b > ref.LS[1] {
			return no()
		}
		return true, func(r *c23ref) { r.L[o.x][o.k] = o.t }
	case c23kLDel:
		if !ref.Opt[o.x] {
			return no()
		}
		return true, func(r *c23ref) { r.L[o.x][o.k] = 0 }
	case c23kOptIn:
		if ref.Opt[o.x] {
			return no()
		}
		return true, func(r *c23ref) { r.Opt[o.x] = true; r.L[o.x] = [3]c23slot{} }
	case c23kCloseOut:
		if !ref.Opt[o.x] {
			return no()
		}
		return true, func(r *c23ref) { r.Opt[o.x] = false; r.L[o.x] = [3]c23slot{} }
	case c23kDelApp:
		return true, func(r *c23ref) { r.App = false; r.G = [3]c23slot{}; r.Fam = false } // boxes and local states stay behind
	case c23kBCreate:
		bx := ref.Box[o.x]
		if bx.On {
			if len(bx.Val) != o.n {
				return no()
			}
			return true, none
		}
		return true, func(r *c23ref) { r.Box[o.x] = c23box{On: true, Val: c23zeros(o.n)} }
	case c23kBPut:
		bx := ref.Box[o.x]
		if bx.On && len(bx.Val) != o.n {
			return no()
		}
		return true, func(r *c23ref) { r.Box[o.x] = c23box{On: true, Val: strings.Repeat("p", o.n)} }
	case c23kBResize:
		bx := ref.Box[o.x]
		if !bx.On {
			return no()
		}
		return true, func(r *c23ref) {
			v := r.Box[o.x].Val
			if o.n <= len(v) {
				v = v[:o.n]
			} else {
				v = v + c23zeros(o.n-len(v))
			}
			r.Box[o.x].Val = v
		}
	case c23kBReplace:
		bx := ref.Box[o.x]
		if !bx.On || len(bx.Val) < 1 {
			return no()
		}
		return true, func(r *c23ref) { r.Box[o.x].Val = "x" + r.Box[o.x].Val[1:] }
	case c23kBSplice:
		// previous bytes up to 0, then "yz", then the original bytes from index 1 on; the box
		// keeps its length, so one byte falls off the end. Needs room for the two new bytes.
		bx := ref.Box[o.x]
		if !bx.On || len(bx.Val) < 2 {
			return no()
		}
		return true, func(r *c23ref) {
			v := r.Box[o.x].Val
			r.Box[o.x].Val = ("yz" + v[1:])[:len(v)]
		}
	case c23kBDel:
		return true, func(r *c23ref) { r.Box[o.x] = c23box{} }
	}
	return no()
}

// ---------------------------------------------------------------- environment / driver

type c23env struct {
	t       *testing.T
	name    string
	dir     string
	l       *Ledger
	gb      bookkeeping.GenesisBalances
	cv      protocol.ConsensusVersion
	creator basics.Address
	acct    [2]basics.Address
	proto   config.ConsensusParams
	init    c23ref
	initApp basics.AppIndex
	sibApp  basics.AppIndex // sibling application (family environment only)
	approv  []byte
	clear   []byte
	blocks  []bookkeeping.Block // committed setup blocks (to rebuild private copies)
	serial  atomic.Uint64
}

type c23explore struct {
	e        *c23env
	ops      []c23op
	onegroup bool
	cuts     *c23cutCache
	run      *ve.Run
}

type c23sys struct {
	x        *c23explore
	e        *c23env
	l        *Ledger // shared env ledger, or the shared read-only ledger behind the END-BLOCK
	cutRef   *c23cut
	accepted []int // indices of the accepted operations so far (identifies the block content)
	ev       *eval.BlockEvaluator
	ref      c23ref
	cut      *c23ref // reference state at the block boundary (nil: no END-BLOCK yet)
	app      basics.AppIndex
	group    []c23op // onegroup mode: the accepted operations so far
	obs      string
}

// c23openLedger opens an in-memory ledger. lean=true (private per-trace copies) switches
// off the large preallocated LRU / verified-transaction caches (supported configuration,
// cf. upstream WithAndWithoutLRUCache), which otherwise cost ~1 s per ledger.
func c23openLedger(dir, name string, cv protocol.ConsensusVersion, gb bookkeeping.GenesisBalances, lean bool) (*Ledger, error) {
	var genHash crypto.Digest
	copy(genHash[:], "verif-c23-genesis-hash")
	genBlock, err := bookkeeping.MakeGenesisBlock(cv, gb, "verif", genHash)
	if err != nil {
		return nil, err
	}
	cfg := config.GetDefaultLocal()
	cfg.Archival = true
	if lean {
		cfg.DisableLedgerLRUCache = true
		cfg.TxPoolSize = 64
		cfg.VerifiedTranscationsCacheSize = 64
	}
	log := logging.NewLogger()
	log.SetLevel(logging.Error)
	return OpenLedger(log, filepath.Join(dir, name), true, ledgercore.InitState{
		Block: genBlock, Accounts: gb.Balances, GenesisHash: genHash}, cfg)
}

func c23startEval(l *Ledger) (*eval.BlockEvaluator, error) {
	hdr, err := l.BlockHdr(l.Latest())
	if err != nil {
		return nil, err
	}
	next := bookkeeping.MakeBlock(hdr).BlockHeader
	next.TimeStamp = hdr.TimeStamp + 1
	return eval.StartEvaluator(l, next, eval.EvaluatorOptions{Generate: true, Validate: true})
}

func (x *c23explore) newSys() *c23sys {
	ev, err := c23startEval(x.e.l)
	if err != nil {
		panic(fmt.Sprintf("harness: StartEvaluator: %v", err))
	}
	return &c23sys{x: x, e: x.e, l: x.e.l, ev: ev, ref: x.e.init, app: x.e.initApp}
}

func (s *c23sys) close() {
	if s.cutRef != nil {
		s.x.cuts.release(s.cutRef)
		s.cutRef = nil
	}
}

// build makes the application call for op. app is the id to address.
func (s *c23sys) build(o c23op, app basics.AppIndex, note string) *txntest.Txn {
	e := s.e
	tx := txntest.Txn{Type: protocol.ApplicationCallTx, Sender: e.creator, ApplicationID: app}
	args := func(a ...string) {
		for _, v := range a {
			tx.ApplicationArgs = append(tx.ApplicationArgs, []byte(v))
		}
	}
	boxes := func() {
		idx := uint64(0)
		if o.sib { // the sibling names the dispatcher as foreign app 1 and refers to ITS boxes
			tx.ApplicationID = e.sibApp
			tx.ForeignApps = []basics.AppIndex{app}
			idx = 1
		}
		tx.Boxes = []transactions.BoxRef{{Index: idx, Name: []byte(c23boxNames[0])}, {Index: idx, Name: []byte(c23boxNames[1])}}
	}
	itob := func(n int) string { return string([]byte{0, 0, 0, 0, 0, 0, 0, byte(n)}) }
	switch o.kind {
	case c23kCreate:
		tx.ApplicationID = 0
		tx.ApprovalProgram, tx.ClearStateProgram = e.approv, e.clear
		tx.GlobalStateSchema = basics.StateSchema{NumUint: uint64(o.n), NumByteSlice: uint64(o.m)}
		tx.LocalStateSchema = tx.GlobalStateSchema
	case c23kGPut:
		args([...]string{"", "gu", "gb"}[o.t], c23keys[o.k])
	case c23kGDel:
		args("gd", c23keys[o.k])
	case c23kLPut:
		tx.Sender = e.acct[o.x]
		args([...]string{"", "lu", "lb"}[o.t], c23keys[o.k])
	case c23kLDel:
		tx.Sender = e.acct[o.x]
		args("ld", c23keys[o.k])
	case c23kOptIn:
		tx.Sender, tx.OnCompletion = e.acct[o.x], transactions.OptInOC
	case c23kCloseOut:
		tx.Sender, tx.OnCompletion = e.acct[o.x], transactions.CloseOutOC
	case c23kClear:
		tx.Sender, tx.OnCompletion = e.acct[o.x], transactions.ClearStateOC
	case c23kDelApp:
		tx.OnCompletion = transactions.DeleteApplicationOC
	case c23kBCreate:
		args("bc", c23boxNames[o.x], itob(o.n))
		boxes()
	case c23kBPut:
		args("bp", c23boxNames[o.x], strings.Repeat("p", o.n))
		boxes()
	case c23kBResize:
		args("bz", c23boxNames[o.x], itob(o.n))
		boxes()
	case c23kBReplace:
		args("br", c23boxNames[o.x])
		boxes()
	case c23kBSplice:
		args("bs", c23boxNames[o.x])
		boxes()
	case c23kBDel:
		args("bd", c23boxNames[o.x])
		boxes()
	case c23kFamily:
		args([...]string{"f0", "f1"}[o.n])
	case c23kUpdate:
		tx.OnCompletion = transactions.UpdateApplicationOC
		tx.ApprovalProgram, tx.ClearStateProgram = e.approv, e.clear
		tx.GlobalStateSchema = basics.StateSchema{NumUint: uint64(o.n), NumByteSlice: uint64(o.m)}
	}
	tx.FirstValid = s.ev.Round()
	tx.GenesisHash = s.l.GenesisHash()
	tx.Note = note
	tx.FillDefaults(e.proto)
	return &tx
}

func c23errClass(err error) string {
	if err == nil {
		return "ok"
	}
	m := err.Error()
	for _, k := range []string{"exceeds schema", "has not opted in", "not opted in", "already opted in", "only ClearState is supported", "does not exist", "no such box",
		"box size mismatch", "box_put wrong size", "splice", "replacement", "beyond", "balance", "malformed", "invalid Box reference", "logic eval error"} {
		if strings.Contains(m, k) {
			return k
		}
	}
	m = c23idPattern.ReplaceAllString(m, "<id>") // transaction ids / addresses would make every message distinct
	if len(m) > 60 {
		m = m[:60]
	}
	return m
}

var c23idPattern = regexp.MustCompile(`[A-Z2-7]{52,58}`)

func c23submit(ev *eval.BlockEvaluator, grp []transactions.SignedTxn) error {
	err := ev.TestTransactionGroup(grp)
	if err == nil {
		err = ev.TransactionGroup(transactions.WrapSignedTxnsWithAD(grp)...)
	}
	return err
}

// groupTxns builds the atomic group for ops (onegroup mode) against a fresh evaluator.
func (s *c23sys) groupTxns(ops []c23op) []transactions.SignedTxn {
	app := s.app
	if s.e.initApp == 0 {
		app = basics.AppIndex(s.ev.TestingTxnCounter() + 1) // the group's first transaction creates it
	}
	txs := make([]*txntest.Txn, len(ops))
	for i, o := range ops {
		txs[i] = s.build(o, app, fmt.Sprintf("c23 g%d", i))
	}
	if len(txs) == 1 {
		return []transactions.SignedTxn{txs[0].SignedTxn()}
	}
	return txntest.Group(txs...)
}

// c23cut is the ledger reached by ending the block after a given sequence of accepted
// operations. It is never modified afterwards (one END-BLOCK per trace), so all traces
// sharing that prefix share it read-only; the cache keeps a bounded number open.
type c23cut struct {
	once sync.Once
	l    *Ledger
	err  error
	refs int
	use  uint64
}

type c23cutCache struct {
	mu   sync.Mutex
	m    map[string]*c23cut
	tick uint64
	max  int
	made int
}

func (c *c23cutCache) acquire(key string) *c23cut {
	c.mu.Lock()
	defer c.mu.Unlock()
	e := c.m[key]
	if e == nil {
		e = &c23cut{}
		c.m[key] = e
		c.made++
	}
	e.refs++
	c.tick++
	e.use = c.tick
	return e
}

func (c *c23cutCache) release(e *c23cut) {
	var victims []*c23cut
	c.mu.Lock()
	e.refs--
	if len(c.m) > c.max {
		type kv struct {
			k string
			e *c23cut
		}
		var idle []kv
		for k, v := range c.m {
			if v.refs == 0 {
				idle = append(idle, kv{k, v})
			}
		}
		sort.Slice(idle, func(i, j int) bool { return idle[i].e.use < idle[j].e.use })
		for _, x := range idle {
			if len(c.m) <= c.max*3/4 {
				break
			}
			delete(c.m, x.k)
			victims = append(victims, x.e)
		}
	}
	c.mu.Unlock()
	for _, v := range victims {
		if v.l != nil {
			v.l.Close()
		}
	}
}

func (c *c23cutCache) closeAll() {
	c.mu.Lock()
	defer c.mu.Unlock()
	for k, v := range c.m {
		if v.l != nil {
			v.l.Close()
		}
		delete(c.m, k)
	}
}

// makeCut builds the ledger for "the block under construction in ev is ended now".
func (e *c23env) makeCut(ev *eval.BlockEvaluator) (*Ledger, error) {
	ub, err := ev.GenerateBlock(nil)
	if err != nil {
		return nil, fmt.Errorf("GenerateBlock: %w", err)
	}
	// private copy of the environment's ledger: same genesis, same committed blocks
	pl, err := c23openLedger(e.dir, fmt.Sprintf("%s-p%d", e.name, e.serial.Add(1)), e.cv, e.gb, true)
	if err != nil {
		return nil, fmt.Errorf("harness: open private ledger: %w", err)
	}
	for _, b := range e.blocks {
		if err := pl.AddBlock(b, agreement.Certificate{}); err != nil {
			pl.Close()
			return nil, fmt.Errorf("harness: replay setup block %d: %w", b.Round(), err)
		}
	}
	prp := ub.UnfinishedBlock().BlockHeader.FeeSink
	blk := ub.FinishBlock(committee.Seed(prp), prp, true)
	vb, err := validateWithoutSignatures(e.t, pl, blk)
	if err != nil {
		pl.Close()
		return nil, fmt.Errorf("Validate of the generated block: %w", err)
	}
	if err := pl.AddValidatedBlock(*vb, agreement.Certificate{}); err != nil {
		pl.Close()
		return nil, fmt.Errorf("AddValidatedBlock: %w", err)
	}
	pl.WaitForCommit(pl.Latest())
	return pl, nil
}

func (s *c23sys) endBlock() error {
	key := fmt.Sprint(s.accepted)
	c := s.x.cuts.acquire(key)
	s.cutRef = c
	c.once.Do(func() { c.l, c.err = s.e.makeCut(s.ev) })
	if c.err != nil {
		return c.err
	}
	s.l = c.l
	var err error
	s.ev, err = c23startEval(c.l)
	return err
}

func (s *c23sys) apply(opi int) (bool, error) {
	o := s.x.ops[opi]
	if o.kind == c23kCreate && s.ref.Made {
		return false, nil // one application per history
	}
	if o.kind == c23kEndBlock {
		if s.cut != nil || s.x.onegroup {
			return false, nil
		}
		if err := s.endBlock(); err != nil {
			if strings.HasPrefix(err.Error(), "harness:") {
				// infrastructure trouble (e.g. cannot open another in-memory ledger) is not a verdict
				s.x.run.Note("INCONCLUSIVE %s: %v", s.e.name, err)
				s.x.run.Capped()
				return false, nil
			}
			return true, ve.Violationf("C23:end-block", "block of an accepted history could not be generated/validated/added: %v", err)
		}
		c := s.ref
		s.cut = &c
		s.obs = "END-BLOCK"
		return true, nil
	}
	if s.x.onegroup && len(s.group) >= 8 {
		return false, nil
	}
	want, effect := s.ref.judge(o)
	var err error
	if s.x.onegroup {
		// the evaluator of this instance never holds anything: a rejected group leaves it
		// untouched, an accepted one is re-submitted on a fresh evaluator by the next step.
		ev, e2 := c23startEval(s.l)
		if e2 != nil {
			panic("harness: " + e2.Error())
		}
		s.ev = ev
		err = c23submit(ev, s.groupTxns(append(append([]c23op{}, s.group...), o)))
	} else {
		app := s.app
		if app == 0 && o.kind != c23kCreate {
			app = c23bogusApp // nothing was created yet: address an id that never exists
		}
		tx := s.build(o, app, fmt.Sprintf("c23 txn %d", len(s.accepted))) // identical accepted txns must differ
		err = c23submit(s.ev, []transactions.SignedTxn{tx.SignedTxn()})
	}
	var pe ledgercore.EvalPanicError
	if errors.As(err, &pe) {
		return true, ve.Violationf("C23:panic", "%v panicked inside the evaluator: %v", o, err)
	}
	accepted := err == nil
	s.obs = fmt.Sprintf("%s/%v/%s", c23kindNames[o.kind], want, c23errClass(err))
	switch {
	case want && !accepted:
		return true, ve.Violationf("C23:"+c23kindNames[o.kind]+"-wrongly-rejected", "%v must be accepted in reference state %+v but the evaluator said: %v", o, s.ref, err)
	case !want && accepted:
		return true, ve.Violationf("C23:"+c23kindNames[o.kind]+"-wrongly-accepted", "%v must be rejected in reference state %+v (schema/box rules) but the evaluator accepted it", o, s.ref)
	}
	if accepted {
		effect(&s.ref)
		s.accepted = append(s.accepted, opi)
		if o.kind == c23kCreate {
			s.app = basics.AppIndex(s.ev.TestingTxnCounter())
			if s.x.onegroup {
				s.app = basics.AppIndex(s.ev.TestingTxnCounter()) - basics.AppIndex(len(s.group))
			}
		}
		if s.x.onegroup {
			s.group = append(s.group, o)
		}
	}
	return true, nil
}

func (s *c23sys) key() string {
	k := fmt.Sprintf("%s|%+v", s.e.name, s.ref)
	if s.cut != nil {
		k += fmt.Sprintf("|cut %+v", *s.cut)
	}
	if s.x.onegroup {
		k += fmt.Sprintf("|g%d", len(s.group))
	}
	return k
}

func c23teal(kv basics.TealKeyValue) (slots [3]c23slot, extra string) {
	for k, v := range kv {
		idx := -1
		for i, n := range c23keys {
			if n == k {
				idx = i
			}
		}
		switch {
		case idx < 0:
			extra = fmt.Sprintf("unexpected key %q", k)
		case v.Type == basics.TealUintType && v.Uint == 7:
			slots[idx] = 1
		case v.Type == basics.TealBytesType && v.Bytes == "v":
			slots[idx] = 2
		default:
			extra = fmt.Sprintf("key %q has unexpected value %+v", k, v)
		}
	}
	return
}

func c23kvCounts(kv basics.TealKeyValue) (u, b uint64) {
	for _, v := range kv {
		if v.Type == basics.TealUintType {
			u++
		} else {
			b++
		}
	}
	return
}

// final is destructive: generate the block and compare storage + accounting.
func (s *c23sys) final() error {
	ev := s.ev
	if s.x.onegroup {
		var err error
		if ev, err = c23startEval(s.l); err != nil {
			panic("harness: " + err.Error())
		}
		s.ev = ev
		if len(s.group) > 0 {
			if err := c23submit(ev, s.groupTxns(s.group)); err != nil {
				return ve.Violationf("C23:group-not-reproducible", "group %v was accepted before but is rejected on a fresh evaluator: %v", s.group, err)
			}
		}
	}
	ub, err := ev.GenerateBlock(nil)
	if err != nil {
		return ve.Violationf("C23:generate-block", "GenerateBlock failed after an accepted history: %v", err)
	}
	d := ub.UnfinishedDeltas()
	l := s.l
	rnd := l.Latest()

	acct := func(addr basics.Address) (ledgercore.AccountData, error) {
		if ad, ok := d.Accts.GetData(addr); ok {
			return ad, nil
		}
		ad, _, err := l.LookupWithoutRewards(rnd, addr)
		return ad, err
	}
	appRes := func(addr basics.Address) (p *basics.AppParams, ls *basics.AppLocalState, err error) {
		var base ledgercore.AppResource
		have := false
		get := func() error {
			if have {
				return nil
			}
			var e error
			base, e = l.LookupApplication(rnd, addr, s.app)
			have = e == nil
			return e
		}
		if pd, ok := d.Accts.GetAppParams(addr, s.app); ok {
			if !pd.Deleted {
				p = pd.Params
			}
		} else {
			if err = get(); err != nil {
				return
			}
			p = base.AppParams
		}
		if sd, ok := d.Accts.GetAppLocalState(addr, s.app); ok {
			if !sd.Deleted {
				ls = sd.LocalState
			}
		} else {
			if err = get(); err != nil {
				return
			}
			ls = base.AppLocalState
		}
		return
	}

	// ---- boxes
	if s.app != 0 {
		var count, bytes uint64
		for _, name := range []string{"a", "bb", "b", "ab", "", "k1"} {
			key := apps.MakeBoxKey(uint64(s.app), name)
			var val []byte
			if kd, ok := d.KvMods[key]; ok {
				val = kd.Data
			} else if val, err = l.LookupKv(rnd, key); err != nil {
				return ve.Violationf("C23:lookup", "LookupKv(%q): %v", name, err)
			}
			exists := val != nil
			if exists {
				count++
				bytes += uint64(len(name) + len(val))
			}
			want := c23box{}
			for i, n := range c23boxNames {
				if n == name {
					want = s.ref.Box[i]
				}
			}
			if exists != want.On || (exists && string(val) != want.Val) {
				return ve.Violationf("C23:box-content", "box %q: exists=%v value=%q, reference says %+v", name, exists, val, want)
			}
		}
		ad, err := acct(s.app.Address())
		if err != nil {
			return ve.Violationf("C23:lookup", "app account: %v", err)
		}
		if ad.TotalBoxes != count || ad.TotalBoxBytes != bytes {
			return ve.Violationf("C23:box-accounting", "app account records TotalBoxes=%d TotalBoxBytes=%d but %d boxes with %d name+value bytes exist (reference %+v)", ad.TotalBoxes, ad.TotalBoxBytes, count, bytes, s.ref.Box)
		}
		if s.e.sibApp != 0 {
			// the sibling owns no boxes, whatever it did to the dispatcher's
			for _, name := range c23boxNames {
				key := apps.MakeBoxKey(uint64(s.e.sibApp), name)
				var val []byte
				if kd, ok := d.KvMods[key]; ok {
					val = kd.Data
				} else if val, err = l.LookupKv(rnd, key); err != nil {
					return ve.Violationf("C23:lookup", "LookupKv(sibling %q): %v", name, err)
				}
				if val != nil {
					return ve.Violationf("C23:box-misplaced", "box %q exists under the sibling application", name)
				}
			}
			sad, err := acct(s.e.sibApp.Address())
			if err != nil {
				return ve.Violationf("C23:lookup", "sibling account: %v", err)
			}
			if sad.TotalBoxes != 0 || sad.TotalBoxBytes != 0 {
				return ve.Violationf("C23:box-accounting-sibling", "sibling app account records TotalBoxes=%d TotalBoxBytes=%d but owns no box", sad.TotalBoxes, sad.TotalBoxBytes)
			}
		}
	}

	// ---- global state
	if s.app != 0 {
		p, cls, err := appRes(s.e.creator)
		if err != nil {
			return ve.Violationf("C23:lookup", "creator resource: %v", err)
		}
		if cls != nil {
			return ve.Violationf("C23:unexpected-local", "creator has a local state it never opted in to")
		}
		if (p != nil) != s.ref.App {
			return ve.Violationf("C23:app-existence", "app params present=%v, reference says exists=%v", p != nil, s.ref.App)
		}
		wantSchema := basics.StateSchema{}
		if p != nil {
			slots, extra := c23teal(p.GlobalState)
			if extra != "" || slots != s.ref.G {
				return ve.Violationf("C23:global-content", "global state %v differs from reference %v %s", p.GlobalState, s.ref.G, extra)
			}
			u, b := c23kvCounts(p.GlobalState)
			if u > p.GlobalStateSchema.NumUint || b > p.GlobalStateSchema.NumByteSlice {
				return ve.Violationf("C23:global-over-schema", "global state holds %d uints / %d byte slices, schema allows %+v", u, b, p.GlobalStateSchema)
			}
			if p.GlobalStateSchema.NumUint != uint64(s.ref.GS[0]) || p.GlobalStateSchema.NumByteSlice != uint64(s.ref.GS[1]) {
				return ve.Violationf("C23:schema-changed", "global schema %+v differs from declared %v", p.GlobalStateSchema, s.ref.GS)
			}
			wantSchema = p.GlobalStateSchema
			if p.FamilyBoxAccess != s.ref.Fam {
				return ve.Violationf("C23:family-flag", "FamilyBoxAccess=%v, reference says %v", p.FamilyBoxAccess, s.ref.Fam)
			}
		}
		ad, err := acct(s.e.creator)
		if err != nil {
			return ve.Violationf("C23:lookup", "creator account: %v", err)
		}
		if ad.TotalAppSchema != wantSchema {
			return ve.Violationf("C23:schema-accounting", "creator TotalAppSchema=%+v, schemas actually held sum to %+v", ad.TotalAppSchema, wantSchema)
		}
	}

	// ---- local state
	if s.app != 0 {
		for x := 0; x < 2; x++ {
			p, ls, err := appRes(s.e.acct[x])
			if err != nil {
				return ve.Violationf("C23:lookup", "account resource: %v", err)
			}
			if p != nil {
				return ve.Violationf("C23:params-misplaced", "app params found in a non-creator account")
			}
			if (ls != nil) != s.ref.Opt[x] {
				return ve.Violationf("C23:optin-state", "account %d local state present=%v, reference opted-in=%v", x, ls != nil, s.ref.Opt[x])
			}
			wantSchema := basics.StateSchema{}
			if ls != nil {
				slots, extra := c23teal(ls.KeyValue)
				if extra != "" || slots != s.ref.L[x] {
					return ve.Violationf("C23:local-content", "local state of %d %v differs from reference %v %s", x, ls.KeyValue, s.ref.L[x], extra)
				}
				u, b := c23kvCounts(ls.KeyValue)
				if u > ls.Schema.NumUint || b > ls.Schema.NumByteSlice {
					return ve.Violationf("C23:local-over-schema", "local state holds %d uints / %d byte slices, schema allows %+v", u, b, ls.Schema)
				}
				if ls.Schema.NumUint != uint64(s.ref.LS[0]) || ls.Schema.NumByteSlice != uint64(s.ref.LS[1]) {
					return ve.Violationf("C23:schema-changed", "local schema %+v differs from declared %v", ls.Schema, s.ref.LS)
				}
				wantSchema = ls.Schema
			}
			ad, err := acct(s.e.acct[x])
			if err != nil {
				return ve.Violationf("C23:lookup", "account: %v", err)
			}
			if ad.TotalAppSchema != wantSchema {
				return ve.Violationf("C23:schema-accounting", "account %d TotalAppSchema=%+v, schemas actually held sum to %+v", x, ad.TotalAppSchema, wantSchema)
			}
		}
	}
	return nil
}

// c23flush adds empty blocks until everything committed so far has moved from the
// in-memory deltas into the account database (the ledger's own commit syncer does it).
func c23flush(t *testing.T, l *Ledger) {
	target := l.Latest()
	for i := 0; i < 400; i++ {
		ev := nextBlock(t, l)
		endBlock(t, l, ev)
		l.trackers.waitAccountsWriting()
		l.trackers.mu.RLock()
		dbRound := l.trackers.dbRound
		l.trackers.mu.RUnlock()
		if dbRound >= target {
			return
		}
	}
	t.Fatalf("harness: committed state was not flushed to the account database")
}

func TestVerif_C23(t *testing.T) {
	deadlock.Opts.Disable = true // harness-only: lock-order bookkeeping dominates the run time otherwise
	defer debug.SetGCPercent(debug.SetGCPercent(400))
	r := ve.NewRun("C23", "model_checking")
	dir := ve.ScratchDir("c23")
	defer os.RemoveAll(dir)

	cv := protocol.ConsensusCurrentVersion
	proto := config.Consensus[cv]
	assemble := func(src string) []byte {
		ops, err := logic.AssembleString(fmt.Sprintf("#pragma version %d\n", proto.LogicSigVersion) + strings.ReplaceAll(src, ";", "\n"))
		if err != nil {
			t.Fatalf("harness: assemble: %v", err)
		}
		return ops.Program
	}
	approv, clear := assemble(c23source), assemble("int 1")

	var envs []*c23env
	sibling := assemble(c23sibling)
	mkenv := func(name string, withApp bool, preBoxes bool, family bool) *c23env {
		gb, addrs, _ := ledgertesting.NewTestGenesis(ledgertesting.TurnOffRewards)
		l, err := c23openLedger(dir, name, cv, gb, false)
		if err != nil {
			t.Fatalf("harness: open ledger: %v", err)
		}
		e := &c23env{t: t, name: name, dir: dir, l: l, gb: gb, cv: cv, creator: addrs[0], acct: [2]basics.Address{addrs[1], addrs[2]}, proto: proto, approv: approv, clear: clear}
		envs = append(envs, e)
		if withApp {
			ev := nextBlock(t, l)
			txn(t, l, ev, &txntest.Txn{Type: "appl", Sender: e.creator, ApprovalProgram: approv, ClearStateProgram: clear,
				GlobalStateSchema: basics.StateSchema{NumUint: 1, NumByteSlice: 1}, LocalStateSchema: basics.StateSchema{NumUint: 1, NumByteSlice: 1}})
			app := basics.AppIndex(ev.TestingTxnCounter())
			endBlock(t, l, ev)
			ev = nextBlock(t, l)
			txn(t, l, ev, &txntest.Txn{Type: "pay", Sender: e.creator, Receiver: app.Address(), Amount: 5_000_000})
			endBlock(t, l, ev)
			e.initApp = app
			e.init = c23ref{App: true, Made: true, GS: [2]int{1, 1}, LS: [2]int{1, 1}}
			if family {
				ev = nextBlock(t, l)
				txn(t, l, ev, &txntest.Txn{Type: "appl", Sender: e.creator, ApprovalProgram: sibling, ClearStateProgram: clear})
				e.sibApp = basics.AppIndex(ev.TestingTxnCounter())
				endBlock(t, l, ev)
			}
			if preBoxes {
				ev = nextBlock(t, l)
				boxes := []transactions.BoxRef{{Name: []byte("a")}, {Name: []byte("bb")}}
				txn(t, l, ev, &txntest.Txn{Type: "appl", Sender: e.creator, ApplicationID: app, Boxes: boxes, ApplicationArgs: [][]byte{[]byte("bp"), []byte("a"), []byte("pppppppp")}})
				txn(t, l, ev, &txntest.Txn{Type: "appl", Sender: e.creator, ApplicationID: app, Boxes: boxes, ApplicationArgs: [][]byte{[]byte("bc"), []byte("bb"), {0, 0, 0, 0, 0, 0, 0, 0}}})
				endBlock(t, l, ev)
				e.init.Box[0] = c23box{On: true, Val: "pppppppp"}
				e.init.Box[1] = c23box{On: true, Val: ""}
				c23flush(t, l)
			}
		}
		for rnd := basics.Round(1); rnd <= l.Latest(); rnd++ {
			b, err := l.Block(rnd)
			if err != nil {
				t.Fatalf("harness: %v", err)
			}
			e.blocks = append(e.blocks, b)
		}
		return e
	}
	envApp := mkenv("app", true, false, false)
	envFlushed := mkenv("flushed", true, true, false)
	envBare := mkenv("bare", false, false, false)
	envFamily := mkenv("family", true, false, true)
	defer func() {
		for _, e := range envs {
			e.l.Close()
		}
	}()

	boxOps, kvOps, kvUpOps := c23boxAlphabet(), c23kvAlphabet(ve.Thorough(), false), c23kvAlphabet(ve.Thorough(), true)
	type plan struct {
		name  string
		x     *c23explore
		depth int
	}
	plans := []plan{
		{"kv+update/app/groups", &c23explore{e: envApp, ops: kvUpOps}, ve.Pick(3, 4)},
		{"kv+update/app/onegroup", &c23explore{e: envApp, ops: kvUpOps, onegroup: true}, ve.Pick(3, 4)},
		{"kv/app/groups", &c23explore{e: envApp, ops: kvOps}, ve.Pick(4, 5)},
		{"box/app/groups", &c23explore{e: envApp, ops: boxOps}, ve.Pick(4, 5)},
		{"kv/bare/groups", &c23explore{e: envBare, ops: kvOps}, ve.Pick(4, 5)},
		{"box/family/groups", &c23explore{e: envFamily, ops: c23familyAlphabet()}, ve.Pick(3, 4)},
		{"box/flushed/groups", &c23explore{e: envFlushed, ops: boxOps}, ve.Pick(3, 4)},
		{"box/app/onegroup", &c23explore{e: envApp, ops: boxOps, onegroup: true}, ve.Pick(4, 5)},
		{"kv/bare/onegroup", &c23explore{e: envBare, ops: kvOps, onegroup: true}, ve.Pick(3, 5)},
		{"kv+update/bare/groups", &c23explore{e: envBare, ops: kvUpOps}, ve.Pick(3, 4)},
	}
	var cov ve.Coverage
	cov.Exhaustive = true
	var names []string
	for _, p := range plans {
		p := p
		p.x.cuts = &c23cutCache{m: map[string]*c23cut{}, max: 384}
		p.x.run = r
		q := &ve.Seq[*c23sys]{
			Name:     p.name,
			NumOps:   len(p.x.ops),
			OpName:   func(op int) string { return p.x.ops[op].String() },
			New:      p.x.newSys,
			Close:    func(s *c23sys) { s.close() },
			Apply:    func(s *c23sys, op int) (bool, error) { return s.apply(op) },
			Key:      func(s *c23sys) string { return s.key() },
			Final:    func(s *c23sys) error { return s.final() },
			Observe:  func(s *c23sys) string { return s.obs },
			MaxDepth: p.depth,
		}
		t1dbg := time.Now()
		res := q.Explore(r)
		r.Note("%s: %d block-boundary ledgers built, %.1fs", p.name, p.x.cuts.made, time.Since(t1dbg).Seconds())
		p.x.cuts.closeAll()
		cov.AddSeq(res)
		names = append(names, fmt.Sprintf("%s(depth %d)", p.name, p.depth))
		if !res.Exhaustive {
			cov.Exhaustive = false
		}
		if r.Violations() > 0 {
			break
		}
	}
	sort.Strings(names)
	cov.Rule = "BFS over all sequences of dispatcher-app storage operations (box create/put/resize/replace/splice/del on 2 names x sizes {0,1,8}; global/local put uint|bytes / del on 3 keys, 2 opted-in accounts, schemas {0,1,2}^2; opt-in/close-out/clear/delete; END-BLOCK) through the real evaluator, as separate groups with a block boundary or as one atomic group: " + strings.Join(names, ", ") + "; per step accept/reject vs reference, per state recorded TotalBoxes/TotalBoxBytes vs the boxes found by lookup, key counts vs schema, TotalAppSchema vs held schemas"
	r.Assume("state key = reference state (+ reference state at the block boundary); sound because every explored state's boxes/globals/locals are proven equal to it by the Final check")
	r.Assume("TEAL semantics of the dispatcher (argument decoding, branches) are as documented; program assembled by logic.AssembleString")
	r.Assume("existing boxes are enumerated by looking up the candidate names a, bb, b, ab, \"\", k1 (the dispatcher can only ever name a and bb)")
	if r.Finish(cov) > 0 {
		t.Fatal("violations")
	}
}
