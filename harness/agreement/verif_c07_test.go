package agreement

// C07 - Persisted consensus state restores exactly.
// (header completed below)

import (
	"fmt"
	"strings"
	"testing"

	ve "github.com/algorand/go-algorand/verifeng"
)

func c07Class(d string) string {
	// stable class of a mismatch: its text up to the first ':' after the kind
	if i := strings.Index(d, ":"); i > 0 && i < 60 {
		d = d[:i]
	}
	if len(d) > 60 {
		d = d[:60]
	}
	return strings.ReplaceAll(d, " ", "-")
}

func TestVerif_C07(t *testing.T) {
	configs := eagrSafetyConfigs(ve.Pick(0, 1))
	differ := eagrNewDiffer()
	for _, b := range configs {
		b.cfg.diff = differ
	}
	eagrRunCheck(t, &eagrCheck{
		id: "C07", level: "model_checking",
		configs: configs,
		oracle: func(r *ve.Run, b *eagrBFS, pre *eagrSys, e eagrEv, post *eagrSys, out *eagrOut, path func() []eagrEv) {
			if out.panicMsg != "" {
				r.Report("C07:panic", fmt.Sprintf("[%s] after %v: %s", b.name, e, out.panicMsg), eagrReplayOf(b, path))
				return
			}
			for _, d := range out.diffs {
				r.Report("C07:"+c07Class(d), fmt.Sprintf("[%s] during %v: %s", b.name, e, d), eagrReplayOf(b, path))
			}
		},
		rule: "under construction.",
		finish: func(r *ve.Run, total *eagrStats) {
			r.Set("states_round_tripped", differ.states.Load())
			r.Set("events_run_on_restored_and_reference_image", differ.events.Load())
			r.Set("actions_compared", differ.actsCmp.Load())
			r.Set("pending_action_lists_round_tripped", differ.actTrips.Load())
			r.Set("states_with_step_routers", differ.withKids.Load())
			r.Set("states_with_equivocation_records", differ.withEq.Load())
			r.Set("states_with_pending_proposal_table", differ.withPend.Load())
			r.Set("states_with_next_round_routers", differ.withNext.Load())
			var ex []string
			for k, v := range eagrEphemeral {
				ex = append(ex, k+" ("+v+")")
			}
			r.Set("fields_excluded_as_documented_not_persisted", ex)
		},
	})
}
