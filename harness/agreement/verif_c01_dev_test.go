package agreement

import (
	"fmt"
	"testing"
	"time"
)

func TestVerif_C01dev(t *testing.T) {
	env := eagrGetEnv(3, 2)
	cfg := &eagrCfg{env: env, nNodes: 3, atomicVerify: true, atomicLoop: true, flightSet: true, maxRound: 1, maxPeriod: 1}
	s := eagrNewSys(cfg)
	out := &eagrOut{}
	s.boot(out)
	// deliver everything FIFO for a while
	for i := 0; i < 12 && len(s.flight) > 0; i++ {
		f := s.flight[0]
		s.apply(eagrEv{K: "deliver", N: f.dst, M: f.m.ID()}, out)
	}
	for j := range s.nodes {
		s.apply(eagrEv{K: "timeout", N: j}, out)
	}
	for i := 0; i < 6 && len(s.flight) > 0; i++ {
		f := s.flight[0]
		s.apply(eagrEv{K: "deliver", N: f.dst, M: f.m.ID()}, out)
	}
	n := s.nodes[0]
	fmt.Printf("player %+v\n", n.p.Round)
	fmt.Printf("rr Msgsize=%d player Msgsize=%d\n", n.rr.Msgsize(), n.p.Msgsize())
	t0 := time.Now()
	var raw []byte
	for i := 0; i < 200; i++ {
		raw = encode(eagrClock{}, n.rr, n.p, nil, false)
	}
	fmt.Printf("encode: %v per call, %d bytes\n", time.Since(t0)/200, len(raw))
	t0 = time.Now()
	buf := make([]byte, 0, 1<<20)
	for i := 0; i < 200; i++ {
		buf = n.stateBytes(buf[:0])
	}
	fmt.Printf("stateBytes: %v per call, %d bytes\n", time.Since(t0)/200, len(buf))
	t0 = time.Now()
	for i := 0; i < 200; i++ {
		_ = n.clone()
	}
	fmt.Printf("clone: %v per call\n", time.Since(t0)/200)
	t0 = time.Now()
	for i := 0; i < 200; i++ {
		_, _, _, _, err := decode(raw, eagrClock{}, serviceLogger{env.log}, false)
		if err != nil {
			t.Fatal(err)
		}
	}
	fmt.Printf("decode: %v per call\n", time.Since(t0)/200)
	t0 = time.Now()
	for i := 0; i < 200; i++ {
		n.keyOK = false
		_ = s.key()
	}
	fmt.Printf("sys.key(1 node recomputed): %v per call\n", time.Since(t0)/200)
	fmt.Printf("commits so far %d, flight %d\n", len(out.commits), len(s.flight))
}
