package ledger

// C19 — Transaction groups apply atomically.
//
// Engine E-ENUM (+ a two-step E-SEQ layer) over the REAL Ledger + BlockEvaluator.
//
// System: an in-memory Ledger with a fixed set-up block (asset X, an application with global
// state / boxes / failing entry points, a funded app account, a rekeyed account, a leased
// payment and a plain payment that are still inside their validity window). All cases share
// this ledger read-only; every case gets its own BlockEvaluator for the next round.
//
// Enumerated (complete product, no sampling):
//   evaluator state  prefix in {empty, one committed single payment P1, one committed 5-member
//                    effectful group P4 (leased pay, asset opt-in, app global write, box create,
//                    app_params_set rewriting the app params)}
//   group size n     in {1,2,3,4,16}  (+ the oversize boundary n=17)
//   failing position p in [0,n)
//   rotation         which of the 6 effect kinds each non-failing member has
//                    (member i does effect (i+rot)%6: pay, asset opt-in, app global write, box create,
//                    app_params_set on the app whose params were rewritten earlier in the block,
//                    box_splice on a box created earlier in the block / living in the ledger)
//   failure kind     overspend, below-min-balance, bad group id, missing member, wrong auth
//                    address, rekeyed sender authorized by the old key, rejecting app, erroring
//                    app, app whose inner payment fails, fee shortfall of the pooled group, not
//                    alive (first valid in the future / last valid in the past), duplicate txid
//                    (inside the group / of the committed prefix / of the ledger), lease conflict
//                    (inside the group / with the committed prefix / with the ledger), asset not
//                    opted in, box write budget exceeded, malformed member, panic injected through
//                    the EvalTracer while member p is evaluated, group of 17
//   tracer           every case again with a non-nil EvalTracer (child deltas() are then computed
//                    for failing groups too); quick tier: only for rotations 0 and 4
//   second layer     (E-SEQ, depth 2) every ordered pair of failing groups of size <= 2 (quick)
//                    / <= 3 (thorough) on the SAME evaluator before the valid follow-up group.
//
// Oracle (property statement): snapshot = canonical dump (reflection, maps sorted, pointers
// followed) of the evaluator's pending state — roundCowState.mods (accounts, resources, kv,
// txids, leases, creatables), sdeltas, txnCount, feesCollected, block (payset, header),
// blockTxBytes, corruptedState — excluding only the read-through caches of the ledger view.
//   (a) TestTransactionGroup never changes the snapshot;
//   (b) after the failing TransactionGroup returns an error the snapshot is identical;
//   (c) the SAME evaluator then accepts the valid follow-up group V and ends with exactly the
//       snapshot, generated block and block delta that a fresh evaluator (prefix + V) produces;
//   (d) a panic injected after the commit point (tracer AfterTxnGroup of a successful group)
//       must leave an evaluator that refuses everything with ErrEvaluatorCorruptedState.
// Calibration (harness failure, never a verdict): the same group without the injected fault
// must be accepted, and every fault must make TransactionGroup return an error.
//
// Not covered: logic-sig failures and real signature checks (done outside the evaluator),
// state-proof transactions, ErrNoSpace (block full), failures in clear-state programs.
//
// Mutants (bin/mut, quick tier) — see the final report:
//   M1 ledger/eval/eval.go  group-fee check moved after cow.commitToParent()
//   M2 ledger/eval/eval.go  blockTxBytes accumulated per member instead of at commit
//   M3 ledger/eval/cow.go   tx leases recorded in the parent cow while the group is evaluated
//   M4 ledger/eval/appcow.go applyStorageDelta shallow-copies AppParams (global-state map shared with
//                           the ledger view): only visible with a tracer, a failing group that wrote
//                           global state, and the follow-up group (oracle c)
// Seeded changes (independent): C19-A (app_params_set writes through a pointer into the parent cow)
// and C19-B (box_splice mutates the kv slice in place): both DETECTED after adding the effect kinds
// app_params_set / box_splice on state that lives in the parent cow or in the ledger.
//   (the DESIGN mutant "recycled child cow not clearing sdeltas" / not clearing leases breaks every
//    valid flow with two app calls, so the set-up block cannot be built: harness failure, not usable)

import (
	"errors"
	"fmt"
	"os"
	"reflect"
	"sort"
	"strings"
	"sync"
	"sync/atomic"
	"testing"

	"github.com/algorand/go-algorand/agreement"
	"github.com/algorand/go-algorand/config"
	"github.com/algorand/go-algorand/crypto"
	"github.com/algorand/go-algorand/data/basics"
	"github.com/algorand/go-algorand/data/bookkeeping"
	"github.com/algorand/go-algorand/data/committee"
	"github.com/algorand/go-algorand/data/transactions"
	"github.com/algorand/go-algorand/data/transactions/logic"
	"github.com/algorand/go-algorand/data/txntest"
	"github.com/algorand/go-algorand/ledger/eval"
	"github.com/algorand/go-algorand/ledger/ledgercore"
	"github.com/algorand/go-algorand/logging"
	"github.com/algorand/go-algorand/protocol"
	ve "github.com/algorand/go-algorand/verifeng"
)

// ---------------------------------------------------------------------------------------
// canonical reflective dump (never calls Interface(), so unexported fields are readable)

var c19skipFields = map[string]bool{"lookupParent": true, "commitParent": true, "l": true, "Tracer": true, "proto": true}

func c19dump(b *strings.Builder, v reflect.Value) {
	switch v.Kind() {
	case reflect.Bool:
		fmt.Fprintf(b, "%v", v.Bool())
	case reflect.Int, reflect.Int8, reflect.Int16, reflect.Int32, reflect.Int64:
		fmt.Fprintf(b, "%d", v.Int())
	case reflect.Uint, reflect.Uint8, reflect.Uint16, reflect.Uint32, reflect.Uint64, reflect.Uintptr:
		fmt.Fprintf(b, "%d", v.Uint())
	case reflect.Float32, reflect.Float64:
		fmt.Fprintf(b, "%v", v.Float())
	case reflect.String:
		fmt.Fprintf(b, "%q", v.String())
	case reflect.Slice, reflect.Array:
		if v.Type().Elem().Kind() == reflect.Uint8 {
			b.WriteString("x")
			for i := 0; i < v.Len(); i++ {
				fmt.Fprintf(b, "%02x", v.Index(i).Uint())
			}
			return
		}
		b.WriteByte('[')
		for i := 0; i < v.Len(); i++ {
			c19dump(b, v.Index(i))
			b.WriteByte(',')
		}
		b.WriteByte(']')
	case reflect.Map:
		type kv struct{ k, v string }
		var ents []kv
		it := v.MapRange()
		for it.Next() {
			var kb, vb strings.Builder
			c19dump(&kb, it.Key())
			c19dump(&vb, it.Value())
			ents = append(ents, kv{kb.String(), vb.String()})
		}
		sort.Slice(ents, func(i, j int) bool { return ents[i].k < ents[j].k })
		b.WriteByte('{')
		for _, e := range ents {
			b.WriteString(e.k)
			b.WriteByte(':')
			b.WriteString(e.v)
			b.WriteByte(',')
		}
		b.WriteByte('}')
	case reflect.Ptr:
		if v.IsNil() {
			b.WriteString("nil")
			return
		}
		b.WriteByte('&')
		c19dump(b, v.Elem())
	case reflect.Interface:
		if v.IsNil() {
			b.WriteString("nil")
			return
		}
		c19dump(b, v.Elem())
	case reflect.Struct:
		t := v.Type()
		b.WriteString(t.Name())
		b.WriteByte('{')
		for i := 0; i < v.NumField(); i++ {
			name := t.Field(i).Name
			if c19skipFields[name] {
				continue
			}
			b.WriteString(name)
			b.WriteByte('=')
			c19dump(b, v.Field(i))
			b.WriteByte(';')
		}
		b.WriteByte('}')
	default:
		b.WriteString("?")
	}
}

// c19snapshot dumps the evaluator's pending state.
func c19snapshot(ev *eval.BlockEvaluator) string {
	var b strings.Builder
	v := reflect.ValueOf(ev).Elem()
	for _, f := range []string{"state", "block", "blockTxBytes", "blockGenerated", "corruptedState"} {
		fv := v.FieldByName(f)
		if !fv.IsValid() {
			return "MISSING-FIELD:" + f
		}
		b.WriteString(f)
		b.WriteByte('=')
		c19dump(&b, fv)
		b.WriteByte('\n')
	}
	fmt.Fprintf(&b, "payset=%d counter=%d", ev.PaySetSize(), ev.TestingTxnCounter())
	return b.String()
}

func c19dumpAny(x any) string {
	var b strings.Builder
	c19dump(&b, reflect.ValueOf(x))
	return b.String()
}

// ---------------------------------------------------------------------------------------
// world

const c19appSource = `
	txn ApplicationArgs 0; byte "set"; ==; bz notset
	  txn ApplicationArgs 1; txn ApplicationArgs 2; btoi; app_global_put
	  b end
	notset:
	txn ApplicationArgs 0; byte "box"; ==; bz notbox
	  txn ApplicationArgs 1; int 8; box_create; assert
	  b end
	notbox:
	txn ApplicationArgs 0; byte "boxbig"; ==; bz notboxbig
	  txn ApplicationArgs 1; int 16384; box_create; assert
	  b end
	notboxbig:
	txn ApplicationArgs 0; byte "reject"; ==; bz notreject
	  int 0; return
	notreject:
	txn ApplicationArgs 0; byte "pset"; ==; bz notpset
	  txn ApplicationArgs 1; btoi; app_params_set AppForeignBoxReads
	  b end
	notpset:
	txn ApplicationArgs 0; byte "splice"; ==; bz notsplice
	  txn ApplicationArgs 1; int 0; int 2; byte "ZZ"; box_splice
	  b end
	notsplice:
	txn ApplicationArgs 0; byte "get"; ==; bz notget
	  txn ApplicationArgs 1; box_get; assert; log
	  b end
	notget:
	txn ApplicationArgs 0; byte "innerfail"; ==; bz bad
	  byte "touched"; int 1; app_global_put
	  itxn_begin
	  int pay; itxn_field TypeEnum
	  txn Sender; itxn_field Receiver
	  int 1000000000000; itxn_field Amount
	  itxn_submit
	  b end
	bad:
	  err
`

type c19world struct {
	t     *testing.T
	proto config.ConsensusParams
	l     *Ledger
	rnd   basics.Round // round of the evaluators
	hdr   bookkeeping.BlockHeader

	rich, peer, minacct, auth, poor, rekeyed basics.Address
	b                                        [40]basics.Address // opt-in accounts
	asset                                    basics.AssetIndex
	app                                      basics.AppIndex
	lease0, lease1                           [32]byte
	ledgerDup                                transactions.SignedTxn // exact txn committed in the set-up block
	minacctBal                               uint64
}

func c19addr(tag byte, idx byte) basics.Address {
	var a basics.Address
	a[0] = 0xC9
	a[1] = tag
	a[2] = idx
	a[31] = tag ^ idx
	return a
}

var c19ledgerSeq atomic.Uint64

func c19newWorld(t *testing.T) (*c19world, error) {
	w := &c19world{t: t, proto: config.Consensus[protocol.ConsensusFuture]}
	w.rich, w.peer, w.minacct, w.auth, w.poor, w.rekeyed = c19addr(1, 0), c19addr(2, 0), c19addr(3, 0), c19addr(4, 0), c19addr(5, 0), c19addr(6, 0)
	sink, pool := c19addr(0x10, 0), c19addr(0x11, 0)
	w.minacctBal = 300_000
	accts := map[basics.Address]basics.AccountData{
		w.rich:    {MicroAlgos: basics.MicroAlgos{Raw: 1_000_000_000}},
		w.peer:    {MicroAlgos: basics.MicroAlgos{Raw: 10_000_000}},
		w.minacct: {MicroAlgos: basics.MicroAlgos{Raw: w.minacctBal}},
		w.auth:    {MicroAlgos: basics.MicroAlgos{Raw: 10_000_000}},
		w.poor:    {MicroAlgos: basics.MicroAlgos{Raw: 200_000}},
		w.rekeyed: {MicroAlgos: basics.MicroAlgos{Raw: 10_000_000}},
		sink:      {MicroAlgos: basics.MicroAlgos{Raw: 5_000_000}, Status: basics.NotParticipating},
		pool:      {MicroAlgos: basics.MicroAlgos{Raw: 100_000}, Status: basics.NotParticipating},
	}
	for i := range w.b {
		w.b[i] = c19addr(0x20, byte(i))
		accts[w.b[i]] = basics.AccountData{MicroAlgos: basics.MicroAlgos{Raw: 1_000_000}}
	}
	gen := bookkeeping.MakeTimestampedGenesisBalances(accts, sink, pool, 1_700_000_000)
	var genHash crypto.Digest
	copy(genHash[:], "verif-c19-genesis-hash-000000000")
	genBlock, err := bookkeeping.MakeGenesisBlock(protocol.ConsensusFuture, gen, "verif-c19", genHash)
	if err != nil {
		return nil, err
	}
	cfg := config.GetDefaultLocal()
	cfg.Archival = true
	cfg.DisableLedgerLRUCache = true // cost only (seconds of cache allocation per ledger)
	cfg.VerifiedTranscationsCacheSize = 256
	cfg.TxPoolSize = 256
	name := fmt.Sprintf("verif-c19-%d-%d", os.Getpid(), c19ledgerSeq.Add(1))
	w.l, err = OpenLedger(logging.Base(), name, true, ledgercore.InitState{Block: genBlock, Accounts: gen.Balances, GenesisHash: genHash}, cfg)
	if err != nil {
		return nil, err
	}
	copy(w.lease0[:], "verif-c19-lease-in-ledger")
	copy(w.lease1[:], "verif-c19-lease-in-prefix")

	// set-up block
	ev, err := w.newEval(nil)
	if err != nil {
		return nil, err
	}
	one := func(tx *txntest.Txn) (transactions.SignedTxn, error) {
		fillDefaults(t, w.l, ev, tx)
		st := tx.SignedTxn()
		if err := ev.TransactionGroup(transactions.WrapSignedTxnsWithAD([]transactions.SignedTxn{st})...); err != nil {
			return st, fmt.Errorf("set-up txn %v: %w", tx.Type, err)
		}
		return st, nil
	}
	if _, err := one(&txntest.Txn{Type: "acfg", Sender: w.rich, AssetParams: basics.AssetParams{Total: 1_000_000, UnitName: "x"}}); err != nil {
		return nil, err
	}
	w.asset = basics.AssetIndex(ev.TestingTxnCounter())
	if _, err := one(&txntest.Txn{Type: "appl", Sender: w.rich, ApprovalProgram: main(c19appSource),
		GlobalStateSchema: basics.StateSchema{NumUint: 48, NumByteSlice: 2}}); err != nil {
		return nil, err
	}
	w.app = basics.AppIndex(ev.TestingTxnCounter())
	if _, err := one(&txntest.Txn{Type: "pay", Sender: w.rich, Receiver: w.app.Address(), Amount: 20_000_000}); err != nil {
		return nil, err
	}
	if _, err := one(&txntest.Txn{Type: "axfer", Sender: w.peer, AssetReceiver: w.peer, XferAsset: w.asset}); err != nil {
		return nil, err
	}
	// a box that lives in the ledger (target of box_splice when the prefix has no box)
	{
		lb := w.call("lbox", "box", "lbox")
		lb.Boxes = []transactions.BoxRef{{Index: 0, Name: []byte("lbox")}}
		if _, err := one(lb); err != nil {
			return nil, err
		}
	}
	// the app starts with non-empty global state (so that cached params own a map)
	if _, err := one(w.call("init", "set", "init", string([]byte{0, 0, 0, 0, 0, 0, 0, 1}))); err != nil {
		return nil, err
	}
	if _, err := one(&txntest.Txn{Type: "pay", Sender: w.rich, Receiver: w.peer, Amount: 1, Lease: w.lease0, Note: "leased"}); err != nil {
		return nil, err
	}
	if _, err := one(&txntest.Txn{Type: "pay", Sender: w.rekeyed, Receiver: w.rekeyed, RekeyTo: w.auth}); err != nil {
		return nil, err
	}
	if w.ledgerDup, err = one(&txntest.Txn{Type: "pay", Sender: w.rich, Receiver: w.peer, Amount: 2, Note: "ledger-dup"}); err != nil {
		return nil, err
	}
	ub, err := ev.GenerateBlock(nil)
	if err != nil {
		return nil, err
	}
	blk := ub.UnfinishedBlock().WithProposer(committee.Seed(sink), sink, true)
	vb, err := validateWithoutSignatures(t, w.l, blk)
	if err != nil {
		return nil, err
	}
	if err := w.l.AddValidatedBlock(*vb, agreement.Certificate{}); err != nil {
		return nil, err
	}
	w.l.WaitForCommit(w.l.Latest())
	w.rnd = w.l.Latest() + 1
	return w, nil
}

func (w *c19world) newEval(tracer logic.EvalTracer) (*eval.BlockEvaluator, error) {
	rnd := w.l.Latest()
	hdr, err := w.l.BlockHdr(rnd)
	if err != nil {
		return nil, err
	}
	nextHdr := bookkeeping.MakeBlock(hdr).BlockHeader
	nextHdr.TimeStamp = hdr.TimeStamp + 1
	return eval.StartEvaluator(w.l, nextHdr, eval.EvaluatorOptions{Generate: true, Validate: true, Tracer: tracer})
}

// c19tracer: optional panic injection.
type c19tracer struct {
	logic.NullEvalTracer
	armed        bool
	panicAfterGi int  // panic in AfterTxn of this top-level member (-1: never)
	panicAtGroup bool // panic in AfterTxnGroup of a successful top-level group
	depth        int
}

func (tr *c19tracer) BeforeTxnGroup(ep *logic.EvalParams) { tr.depth++ }
func (tr *c19tracer) AfterTxnGroup(ep *logic.EvalParams, deltas *ledgercore.StateDelta, evalError error) {
	tr.depth--
	if tr.armed && tr.panicAtGroup && tr.depth == 0 && deltas != nil && evalError == nil {
		panic("verif-c19 injected panic after commit")
	}
}
func (tr *c19tracer) AfterTxn(ep *logic.EvalParams, gi int, ad transactions.ApplyData, evalError error) {
	if tr.armed && tr.depth == 1 && gi == tr.panicAfterGi {
		panic("verif-c19 injected panic in member")
	}
}

// ---------------------------------------------------------------------------------------
// groups

type c19kind int

const (
	c19Overspend c19kind = iota
	c19BelowMin
	c19BadGroupID
	c19MissingMember
	c19WrongAuth
	c19RekeyedOldKey
	c19AppReject
	c19AppErr
	c19AppInnerFail
	c19FeeShortfall
	c19NotAliveFuture
	c19NotAlivePast
	c19DupInGroup
	c19DupOfPrefix
	c19DupOfLedger
	c19LeaseInGroup
	c19LeasePrefix
	c19LeaseLedger
	c19AssetNotOptedIn
	c19BoxBudget
	c19Malformed
	c19TracerPanic
	c19nKinds
)

var c19kindNames = [...]string{"overspend", "below-min-balance", "bad-group-id", "missing-member", "wrong-auth-addr", "rekeyed-old-key",
	"app-reject", "app-err", "app-inner-fails", "fee-shortfall", "not-alive-future", "not-alive-past", "dup-in-group", "dup-of-prefix",
	"dup-of-ledger", "lease-in-group", "lease-vs-prefix", "lease-vs-ledger", "asset-not-opted-in", "box-budget", "malformed", "tracer-panic"}

const (
	c19PrefixNone = iota
	c19PrefixP1
	c19PrefixP4
	c19nPrefixes
)

type c19case struct {
	prefix, n, p, rot int
	kind              c19kind
	tracer            bool
}

func (c c19case) String() string {
	return fmt.Sprintf("prefix=%d n=%d p=%d rot=%d kind=%s tracer=%v", c.prefix, c.n, c.p, c.rot, c19kindNames[c.kind], c.tracer)
}

func (w *c19world) call(tag string, args ...string) *txntest.Txn {
	tx := txntest.Txn{Type: "appl", Sender: w.rich, ApplicationID: w.app, Note: tag}
	return tx.Args(args...)
}

// effect builds the i-th effectful member. slot selects disjoint resources (opt-in account,
// global key, box name) so that members never collide with each other or with the prefix.
const c19nEffects = 6

// effectP: like effect, plus two effect kinds that write THROUGH existing state: app_params_set
// on the app (whose params sit in the parent cow when the prefix is P4) and box_splice on a box
// that already exists (in the parent cow for prefix P4: the box created by P4; otherwise in the
// ledger).
func (w *c19world) effectP(kind int, slot int, tag string, prefix int) *txntest.Txn {
	switch kind % c19nEffects {
	case 4:
		return w.call(tag, "pset", string([]byte{0, 0, 0, 0, 0, 0, 0, 1}))
	case 5:
		name := "lbox"
		if prefix == c19PrefixP4 {
			name = "b36"
		}
		tx := w.call(tag, "splice", name)
		tx.Boxes = []transactions.BoxRef{{Index: 0, Name: []byte(name)}}
		return tx
	}
	return w.effect(kind%c19nEffects, slot, tag)
}

func (w *c19world) effect(kind int, slot int, tag string) *txntest.Txn {
	switch kind % 4 {
	case 0:
		return &txntest.Txn{Type: "pay", Sender: w.rich, Receiver: w.peer, Amount: uint64(7 + slot), Note: tag}
	case 1:
		return &txntest.Txn{Type: "axfer", Sender: w.b[slot], AssetReceiver: w.b[slot], XferAsset: w.asset, Note: tag}
	case 2:
		return w.call(tag, "set", fmt.Sprintf("k%02d", slot), string([]byte{0, 0, 0, 0, 0, 0, 0, byte(slot + 1)}))
	default:
		name := fmt.Sprintf("b%02d", slot)
		tx := w.call(tag, "box", name)
		tx.Boxes = []transactions.BoxRef{{Index: 0, Name: []byte(name)}}
		return tx
	}
}

func (w *c19world) prefixGroup(prefix int) []*txntest.Txn {
	switch prefix {
	case c19PrefixP1:
		return []*txntest.Txn{{Type: "pay", Sender: w.rich, Receiver: w.peer, Amount: 3, Note: "P1"}}
	case c19PrefixP4:
		lp := &txntest.Txn{Type: "pay", Sender: w.rich, Receiver: w.peer, Amount: 4, Note: "P4.0", Lease: w.lease1}
		// the last member rewrites the app params (flag off -> off): they now live in the parent cow
		return []*txntest.Txn{lp, w.effect(1, 36, "P4.1"), w.effect(2, 36, "P4.2"), w.effect(3, 36, "P4.3"),
			w.call("P4.4", "pset", string([]byte{0, 0, 0, 0, 0, 0, 0, 0}))}
	}
	return nil
}

func (w *c19world) followUp() []*txntest.Txn {
	// V.2 logs the ledger box, so that a write that escaped into the ledger's cached value shows
	get := w.call("V.2", "get", "lbox")
	get.Boxes = []transactions.BoxRef{{Index: 0, Name: []byte("lbox")}}
	return []*txntest.Txn{{Type: "pay", Sender: w.peer, Receiver: w.rich, Amount: 3, Note: "V.0"}, w.effect(2, 38, "V.1"), get}
}

// finish fills defaults, and groups.
func (w *c19world) finish(ev *eval.BlockEvaluator, txs []*txntest.Txn) []transactions.SignedTxn {
	for _, tx := range txs {
		fillDefaults(w.t, w.l, ev, tx)
	}
	if len(txs) == 1 {
		return []transactions.SignedTxn{txs[0].SignedTxn()}
	}
	return txntest.Group(txs...)
}

// applicable reports whether the case exists (some kinds need a particular prefix / size).
func (c c19case) applicable() bool {
	switch c.kind {
	case c19DupInGroup, c19LeaseInGroup:
		return c.n >= 2
	case c19DupOfPrefix:
		return c.prefix == c19PrefixP1 && c.n == 1
	case c19DupOfLedger:
		return c.n == 1
	case c19LeasePrefix:
		return c.prefix == c19PrefixP4
	case c19MissingMember:
		return c.n < 17
	}
	return true
}

// build returns the failing group of the case (fault=true) or its fault-free control.
func (w *c19world) build(ev *eval.BlockEvaluator, c c19case, fault bool, tag string) []transactions.SignedTxn {
	n := c.n
	txs := make([]*txntest.Txn, 0, n+1)
	for i := 0; i < n; i++ {
		txs = append(txs, w.effectP(i+c.rot, i, fmt.Sprintf("%s.%d", tag, i), c.prefix))
	}
	if !fault {
		return w.finish(ev, txs)
	}
	p := c.p
	note := fmt.Sprintf("%s.F%d", tag, p)
	switch c.kind {
	case c19Overspend:
		txs[p] = &txntest.Txn{Type: "pay", Sender: w.poor, Receiver: w.rich, Amount: 10_000_000, Note: note}
	case c19BelowMin:
		txs[p] = &txntest.Txn{Type: "pay", Sender: w.minacct, Receiver: w.rich, Amount: w.minacctBal - w.proto.MinTxnFee - w.proto.MinBalance + 1, Note: note}
	case c19BadGroupID:
		st := w.finish(ev, txs)
		if n == 1 {
			st[0].Txn.Group = crypto.Digest{1, 2, 3}
		} else {
			st[p].Txn.Group[5] ^= 0x40
		}
		return st
	case c19MissingMember:
		txs = append(txs, w.effect(0, 39, tag+".extra"))
		st := w.finish(ev, txs)
		return append(st[:p:p], st[p+1:]...)
	case c19WrongAuth:
		st := w.finish(ev, txs)
		st[p].AuthAddr = w.auth
		return st
	case c19RekeyedOldKey:
		txs[p] = &txntest.Txn{Type: "pay", Sender: w.rekeyed, Receiver: w.rich, Amount: 5, Note: note}
	case c19AppReject:
		txs[p] = w.call(note, "reject")
	case c19AppErr:
		txs[p] = w.call(note, "explode")
	case c19AppInnerFail:
		txs[p] = w.call(note, "innerfail")
	case c19FeeShortfall:
		for _, tx := range txs {
			fillDefaults(w.t, w.l, ev, tx)
		}
		txs[p].Fee = 0
		if n == 1 {
			return []transactions.SignedTxn{txs[0].SignedTxn()}
		}
		return txntest.Group(txs...)
	case c19NotAliveFuture:
		txs[p].FirstValid = w.rnd + 1
	case c19NotAlivePast:
		txs[p].FirstValid = 1
		txs[p].LastValid = w.rnd - 1
	case c19DupInGroup:
		q := (p + 1) % n
		cp := *txs[q]
		txs[p] = &cp
	case c19DupOfPrefix:
		txs[p] = w.prefixGroup(c19PrefixP1)[0]
	case c19DupOfLedger:
		return []transactions.SignedTxn{w.ledgerDup}
	case c19LeaseInGroup:
		q := (p + 1) % n
		var lease [32]byte
		copy(lease[:], "verif-c19-lease-in-group")
		txs[q] = &txntest.Txn{Type: "pay", Sender: w.rich, Receiver: w.peer, Amount: 1, Lease: lease, Note: note + "q"}
		txs[p] = &txntest.Txn{Type: "pay", Sender: w.rich, Receiver: w.peer, Amount: 2, Lease: lease, Note: note}
	case c19LeasePrefix:
		txs[p] = &txntest.Txn{Type: "pay", Sender: w.rich, Receiver: w.peer, Amount: 2, Lease: w.lease1, Note: note}
	case c19LeaseLedger:
		txs[p] = &txntest.Txn{Type: "pay", Sender: w.rich, Receiver: w.peer, Amount: 2, Lease: w.lease0, Note: note}
	case c19AssetNotOptedIn:
		txs[p] = &txntest.Txn{Type: "axfer", Sender: w.rich, AssetReceiver: w.minacct, XferAsset: w.asset, AssetAmount: 1, Note: note}
	case c19BoxBudget:
		tx := w.call(note, "boxbig", "huge")
		tx.Boxes = []transactions.BoxRef{{Index: 0, Name: []byte("huge")}}
		txs[p] = tx
	case c19Malformed:
		txs[p] = &txntest.Txn{Type: "pay", Sender: w.poor, Receiver: w.rich, CloseRemainderTo: w.poor, Note: note}
	case c19TracerPanic:
		// the group itself is valid; the tracer panics while member p is evaluated
	}
	return w.finish(ev, txs)
}

// ---------------------------------------------------------------------------------------
// reference results of the fresh evaluator (prefix + V), per prefix and tracer setting

type c19ref struct {
	snap, block, delta string
}

type c19refs struct {
	mu sync.Mutex
	m  map[[2]int]*c19ref
}

func c19finish(ev *eval.BlockEvaluator) (block, delta string, err error) {
	ub, err := ev.GenerateBlock(nil)
	if err != nil {
		return "", "", err
	}
	blk := ub.UnfinishedBlock()
	d := ub.UnfinishedDeltas()
	return string(protocol.Encode(&blk)), c19dumpAny(&d), nil
}

func (w *c19world) applyAll(ev *eval.BlockEvaluator, txs []*txntest.Txn) error {
	if len(txs) == 0 {
		return nil
	}
	st := w.finish(ev, txs)
	return ev.TransactionGroup(transactions.WrapSignedTxnsWithAD(st)...)
}

func (w *c19world) reference(refs *c19refs, prefix int, tracer bool) (*c19ref, error) {
	k := [2]int{prefix, 0}
	if tracer {
		k[1] = 1
	}
	refs.mu.Lock()
	defer refs.mu.Unlock()
	if r, ok := refs.m[k]; ok {
		return r, nil
	}
	var tr logic.EvalTracer
	if tracer {
		tr = &c19tracer{panicAfterGi: -1}
	}
	ev, err := w.newEval(tr)
	if err != nil {
		return nil, err
	}
	if err := w.applyAll(ev, w.prefixGroup(prefix)); err != nil {
		return nil, fmt.Errorf("reference prefix: %w", err)
	}
	if err := w.applyAll(ev, w.followUp()); err != nil {
		return nil, fmt.Errorf("reference follow-up: %w", err)
	}
	r := &c19ref{snap: c19snapshot(ev)}
	r.block, r.delta, err = c19finish(ev)
	if err != nil {
		return nil, err
	}
	refs.m[k] = r
	return r, nil
}

func c19firstDiff(a, b string) string {
	i := 0
	for i < len(a) && i < len(b) && a[i] == b[i] {
		i++
	}
	lo := i - 120
	if lo < 0 {
		lo = 0
	}
	hi := func(s string) int {
		if i+160 < len(s) {
			return i + 160
		}
		return len(s)
	}
	return fmt.Sprintf("first difference at byte %d: before=...%q / after=...%q", i, a[lo:hi(a)], b[lo:hi(b)])
}

type c19stats struct {
	cases, failGroups, testGroupRejected atomic.Int64
	mu                                   sync.Mutex
	classes                              map[string]int
}

func (st *c19stats) class(k string) {
	st.mu.Lock()
	if st.classes == nil {
		st.classes = map[string]int{}
	}
	st.classes[k]++
	st.mu.Unlock()
}

// runCase executes one or two failing groups (cs) on one evaluator. Returns a violation or
// a harness error (plain error).
func (w *c19world) runCase(r *ve.Run, refs *c19refs, st *c19stats, cs []c19case) error {
	c0 := cs[0]
	useTracer := c0.tracer
	for _, c := range cs {
		if c.kind == c19TracerPanic {
			useTracer = true
		}
	}
	var tr *c19tracer
	var trI logic.EvalTracer
	if useTracer {
		tr = &c19tracer{panicAfterGi: -1}
		trI = tr
	}
	ev, err := w.newEval(trI)
	if err != nil {
		return err
	}
	if err := w.applyAll(ev, w.prefixGroup(c0.prefix)); err != nil {
		return fmt.Errorf("prefix: %w", err)
	}
	for step, c := range cs {
		tag := fmt.Sprintf("S%d", step)
		// calibration: the fault-free control group is accepted (on a scratch evaluator)
		if step == 0 || cs[step].n != cs[0].n || cs[step].rot != cs[0].rot {
			sev, err := w.newEval(nil)
			if err != nil {
				return err
			}
			if err := w.applyAll(sev, w.prefixGroup(c0.prefix)); err != nil {
				return err
			}
			ctl := w.build(sev, c, false, tag)
			cerr := sev.TransactionGroup(transactions.WrapSignedTxnsWithAD(ctl)...)
			if c.n <= w.proto.MaxTxGroupSize && cerr != nil {
				return fmt.Errorf("calibration: control group of %v rejected: %w", c, cerr)
			}
			if c.n > w.proto.MaxTxGroupSize && cerr == nil {
				return ve.Violationf("C19:oversize-accepted", "a group of %d transactions was accepted", c.n)
			}
		}
		before := c19snapshot(ev)
		if strings.HasPrefix(before, "MISSING-FIELD") {
			return fmt.Errorf("snapshot: %s", before)
		}
		fault := c.n <= w.proto.MaxTxGroupSize
		g := w.build(ev, c, fault, tag)
		// (a) TestTransactionGroup never changes anything
		terr := ev.TestTransactionGroup(g)
		if terr != nil {
			st.testGroupRejected.Add(1)
		}
		if mid := c19snapshot(ev); mid != before {
			return ve.Violationf("C19:test-group-mutates", "%v: TestTransactionGroup (err=%v) changed the evaluator: %s", c, terr, c19firstDiff(before, mid))
		}
		if tr != nil {
			tr.armed = c.kind == c19TracerPanic
			tr.panicAfterGi = c.p
		}
		gerr := ev.TransactionGroup(transactions.WrapSignedTxnsWithAD(g)...)
		if tr != nil {
			tr.armed = false
		}
		st.failGroups.Add(1)
		if gerr == nil {
			return fmt.Errorf("calibration: %v: the faulty group was accepted", c)
		}
		if errors.Is(gerr, ledgercore.ErrEvaluatorCorruptedState) {
			return ve.Violationf("C19:spurious-corrupt", "%v: evaluator reports corrupted state after a pre-commit failure", c)
		}
		var pe ledgercore.EvalPanicError
		if c.kind != c19TracerPanic && errors.As(gerr, &pe) {
			return ve.Violationf("C19:panic", "%v: evaluator panicked: %v", c, gerr)
		}
		cl := fmt.Sprintf("%s/%s", c19kindNames[c.kind], c19errClass(gerr))
		r.Class(cl)
		st.class(cl)
		// (b) nothing leaked
		after := c19snapshot(ev)
		if after != before {
			return ve.Violationf("C19:leak/"+c19kindNames[c.kind], "%v: failing TransactionGroup (%v) changed the evaluator: %s", c, c19short(gerr), c19firstDiff(before, after))
		}
	}
	// (c) same evaluator accepts V exactly like a fresh one
	ref, err := w.reference(refs, c0.prefix, useTracer)
	if err != nil {
		return err
	}
	if verr := w.applyAll(ev, w.followUp()); verr != nil {
		return ve.Violationf("C19:followup-rejected", "%v: after the failing group(s) the evaluator refuses the valid follow-up group that a fresh evaluator accepts: %v", cs, c19short(verr))
	}
	if s := c19snapshot(ev); s != ref.snap {
		return ve.Violationf("C19:followup-differs", "%v: after the failing group(s) + follow-up the evaluator state differs from a fresh evaluator's: %s", cs, c19firstDiff(ref.snap, s))
	}
	blk, dlt, err := c19finish(ev)
	if err != nil {
		return ve.Violationf("C19:generate-fails", "%v: GenerateBlock fails after failing group(s) + follow-up: %v", cs, err)
	}
	if blk != ref.block {
		return ve.Violationf("C19:block-differs", "%v: generated block differs from a fresh evaluator's: %s", cs, c19firstDiff(ref.block, blk))
	}
	if dlt != ref.delta {
		return ve.Violationf("C19:delta-differs", "%v: generated block delta differs from a fresh evaluator's: %s", cs, c19firstDiff(ref.delta, dlt))
	}
	st.cases.Add(1)
	return nil
}

func c19short(err error) string {
	s := err.Error()
	if len(s) > 160 {
		s = s[:160] + "…"
	}
	return s
}

// c19errClass buckets an error message for the distinct-outcome count.
func c19errClass(err error) string {
	s := err.Error()
	for _, k := range []string{"panic", "overspend", "below min", "inconsistent group", "incomplete group", "had zero Group", "should have been authorized", "rejected by ApprovalProgram", "err opcode",
		"fees is less", "round", "already in ledger", "lease", "asset", "write budget", "malformed", "exceeds maximum", "logic eval error"} {
		if strings.Contains(s, k) {
			return k
		}
	}
	return "other"
}

// (d) panic after the commit point.
func (w *c19world) postCommitPanic(prefix int) error {
	tr := &c19tracer{panicAfterGi: -1}
	ev, err := w.newEval(tr)
	if err != nil {
		return err
	}
	if err := w.applyAll(ev, w.prefixGroup(prefix)); err != nil {
		return err
	}
	tr.armed, tr.panicAtGroup = true, true
	g := w.finish(ev, []*txntest.Txn{w.effect(0, 0, "PC.0"), w.effect(2, 1, "PC.1")})
	gerr := ev.TransactionGroup(transactions.WrapSignedTxnsWithAD(g)...)
	tr.armed = false
	if gerr == nil {
		return fmt.Errorf("post-commit panic was not reported")
	}
	v := w.finish(ev, w.followUp())
	e1 := ev.TestTransactionGroup(v)
	e2 := ev.TransactionGroup(transactions.WrapSignedTxnsWithAD(v)...)
	_, e3 := ev.GenerateBlock(nil)
	for i, e := range []error{e1, e2, e3} {
		if !errors.Is(e, ledgercore.ErrEvaluatorCorruptedState) {
			return ve.Violationf("C19:corrupt-evaluator-continues", "after a panic past the commit point call #%d on the evaluator returned %v instead of ErrEvaluatorCorruptedState", i, e)
		}
	}
	return nil
}

func TestVerif_C19(t *testing.T) {
	r := ve.NewRun("C19", "model_checking")
	w, err := c19newWorld(t)
	if err != nil {
		t.Fatalf("HARNESS-FAILURE (not a verdict): %v", err)
	}
	defer w.l.Close()
	refs := &c19refs{m: map[[2]int]*c19ref{}}
	var st c19stats

	// layer 1: all single failing groups
	var cases [][]c19case
	sizes := []int{1, 2, 3, 4, 16, 17}
	tracers := []bool{false, true} // quick: tracer=true only with rotations 0 and 4
	var singles []c19case
	for _, tracer := range tracers {
		for prefix := 0; prefix < c19nPrefixes; prefix++ {
			for _, n := range sizes {
				if n == 17 {
					singles = append(singles, c19case{prefix: prefix, n: 17, kind: c19Overspend, tracer: tracer})
					continue
				}
				for p := 0; p < n; p++ {
					for rot := 0; rot < c19nEffects; rot++ {
						if tracer && rot != 0 && rot != 4 && !ve.Thorough() {
							continue
						}
						for k := c19kind(0); k < c19nKinds; k++ {
							c := c19case{prefix: prefix, n: n, p: p, rot: rot, kind: k, tracer: tracer}
							if c.applicable() {
								singles = append(singles, c)
							}
						}
					}
				}
			}
		}
	}
	for _, c := range singles {
		cases = append(cases, []c19case{c})
	}
	nSingles := len(cases)
	// layer 2: ordered pairs of failing groups on the same evaluator (rotation 0, no tracer)
	maxN := ve.Pick(2, 3)
	var small []c19case
	for _, c := range singles {
		if c.n <= maxN && (c.rot == 0 || c.rot == 4) && !c.tracer {
			small = append(small, c)
		}
	}
	for _, a := range small {
		for _, b := range small {
			if a.prefix == b.prefix {
				cases = append(cases, []c19case{a, b})
			}
		}
	}
	var herrN, executed atomic.Int64
	// reference results first, on the still untouched ledger
	for prefix := 0; prefix < c19nPrefixes; prefix++ {
		for _, tracer := range []bool{false, true} {
			if _, err := w.reference(refs, prefix, tracer); err != nil {
				t.Fatalf("HARNESS-FAILURE (not a verdict): reference: %v", err)
			}
		}
	}
	var herrFirst atomic.Value
	done := r.ParallelFor(len(cases), func(i int) {
		if r.Violations() > 20 {
			r.Capped()
			return
		}
		cs := cases[i]
		err := w.runCase(r, refs, &st, cs)
		executed.Add(1)
		r.Eval()
		if err == nil {
			return
		}
		var v *ve.Violation
		if errors.As(err, &v) {
			r.Report(v.Key, v.Msg, map[string]any{"engine": "enum", "index": i, "cases": fmt.Sprint(cs)})
			return
		}
		if herrN.Add(1) == 1 {
			herrFirst.Store(fmt.Sprintf("%v: %v", cs, err))
		}
	})
	for prefix := 0; prefix < c19nPrefixes; prefix++ {
		if err := w.postCommitPanic(prefix); err != nil {
			var v *ve.Violation
			if errors.As(err, &v) {
				r.Report(v.Key, v.Msg, map[string]any{"engine": "enum", "postCommitPanic": prefix})
			} else if herrN.Add(1) == 1 {
				herrFirst.Store(fmt.Sprintf("postCommitPanic: %v", err))
			}
		}
	}
	r.Sample(map[string]any{"single": fmt.Sprint(cases[len(cases)/7])})
	r.Sample(map[string]any{"pair": fmt.Sprint(cases[len(cases)-1])})
	r.Set("outcome_classes", st.classes)
	r.Set("single_failure_cases", nSingles)
	r.Set("pair_cases", len(cases)-nSingles)
	r.Set("failing_groups_executed", st.failGroups.Load())
	r.Set("cases_completed_all_oracles", st.cases.Load())
	r.Set("failing_groups_already_refused_by_TestTransactionGroup", st.testGroupRejected.Load())
	cov := ve.Coverage{
		Rule: fmt.Sprintf("every (evaluator prefix in {empty, 1 committed payment, 1 committed 5-member effectful group}) x (group size in {1,2,3,4,16}, +17) x (failing position) x (rotation of the 6 effect kinds (pay, asset opt-in, app global write, box create, app_params_set on params living in the parent cow, box_splice on a box of the parent cow / the ledger) over the other members) x (%d failure kinds)%s, plus every ordered pair of such failing groups of size <= %d on the same evaluator; snapshot of the evaluator's pending state compared before/after each failing group, then the valid follow-up group compared with a fresh evaluator (state, generated block, block delta)",
			int(c19nKinds), map[bool]string{false: " x (tracer off; tracer on for rotations 0 and 4)", true: " x (tracer off/on)"}[ve.Thorough()], maxN),
		States:      int64(c19nPrefixes) * int64(len(tracers)),
		Transitions: st.failGroups.Load() + 2*executed.Load(),
		Traces:      executed.Load(),
		Exhaustive:  int(done) == len(cases) && int(executed.Load()) == len(cases),
	}
	r.Assume("evaluator internals are read by reflection (fields state, block, blockTxBytes, blockGenerated, corruptedState of BlockEvaluator; the ledger read-through caches lookupParent/commitParent are excluded)")
	r.Assume("all cases share one read-only Ledger; signatures are not checked by the evaluator")
	nviol := r.Finish(cov)
	if n := herrN.Load(); n > 0 {
		t.Fatalf("HARNESS-FAILURE (not a verdict): %d harness errors, first: %v", n, herrFirst.Load())
	}
	if nviol > 0 {
		t.Fatal("violations")
	}
}
