package agreement

// C03 - Every committed block carries a certificate that authenticates it.
//
// Engine E-AGR, same explorations as C01 (see verif_c01_test.go / common_eagr_*_test.go): every
// ensureAction emitted on every explored transition is checked.
// Oracle (reference predicate written from the property statement, memoized per distinct
// certificate+block): Step == cert; round and digest equal the payload's; value != bottom; the REAL
// Certificate.Authenticate(block, node's ledger, AsyncVoteVerifier) returns nil; and, recomputed
// independently from the genesis stake table (not from the weights carried in the credentials):
// voters (plain + equivocation pairs) are distinct online accounts, every vote verifies individually
// through the real unauthenticatedVote.verify for (round, period, cert, value), and their stake
// reaches the cert threshold. A panic inside submitTop is a violation.
//
// Mutants (bin/mut, quick tier):
//   DETECTED  bundle.go makeBundle: `packedSoFar += 2 * vote.Cred.Weight` (bundle cut off one vote early).
//   DETECTED  player.handleMessageEvent (late payload): certificate taken from the freshest bundle of
//             the vote machine without requiring it to be a certThreshold (a soft/next bundle is
//             handed to the ledger as certificate when the payload arrives after the quorum).
// Seeded changes: C03-B (certificate of a later period committed with the own period's staged block)
//   DETECTED in sync-1prop-netsplit (soft votes reach one node only + that node offline for 3 delivery
//   sub-phases); C03-A (stale vote of an equivocator left in Counts[..].Votes) needs TWO equivocating
//   accounts, outside the 1-adversary-account bound of E-AGR (it is caught by C06).
// Not covered: as C01.

import (
	"fmt"
	"sync"
	"testing"

	"github.com/algorand/go-algorand/crypto"
	"github.com/algorand/go-algorand/data/basics"
	"github.com/algorand/go-algorand/protocol"
	ve "github.com/algorand/go-algorand/verifeng"
)

var c03Memo sync.Map // crypto.Digest -> string ("" = certificate is fine)

// c03CheckCert is the reference predicate, written from the property statement: the certificate
// is a cert-step bundle for the block's round and digest, its voters are distinct, every vote
// verifies individually for (round, period, cert, value), and the voters' stake (1 microalgo per
// account in these configurations, recomputed from the genesis table, not from the credentials
// carried by the votes) reaches the cert threshold. In addition the real Certificate.Authenticate
// must accept it.
func c03CheckCert(env *eagrEnv, led *eagrLedger, a ensureAction) string {
	cert := a.Certificate
	blk := a.Payload.Block
	ub := unauthenticatedBundle(cert)
	key := crypto.Hash(append(protocol.Encode(&ub), blk.Digest().ToSlice()...))
	if v, ok := c03Memo.Load(key); ok {
		return v.(string)
	}
	res := func() string {
		if cert.Step != c03CertStep() {
			return fmt.Sprintf("certificate step is %d, not cert", cert.Step)
		}
		if cert.Round != blk.Round() {
			return fmt.Sprintf("certificate round %d != block round %d", cert.Round, blk.Round())
		}
		if cert.Proposal.BlockDigest != blk.Digest() {
			return fmt.Sprintf("certificate digest %v != block digest %v", cert.Proposal.BlockDigest, blk.Digest())
		}
		if cert.Proposal == bottom {
			return "certificate for the bottom value"
		}
		if err := cert.Authenticate(blk, led, env.avv); err != nil {
			return fmt.Sprintf("Certificate.Authenticate rejects it: %v", err)
		}
		voters := map[basics.Address]bool{}
		var stake uint64
		count := func(sender basics.Address) string {
			if voters[sender] {
				return fmt.Sprintf("voter %v appears twice", sender)
			}
			voters[sender] = true
			od, ok := env.online[sender]
			if !ok {
				return fmt.Sprintf("voter %v is not an online account", sender)
			}
			stake += od.MicroAlgosWithRewards.Raw
			return ""
		}
		for _, va := range cert.Votes {
			if m := count(va.Sender); m != "" {
				return m
			}
			uv := unauthenticatedVote{R: rawVote{Sender: va.Sender, Round: cert.Round, Period: cert.Period, Step: cert.Step, Proposal: cert.Proposal}, Cred: va.Cred, Sig: va.Sig}
			if _, err := env.verifyVote(uv, led); err != nil {
				return fmt.Sprintf("vote of %v in the certificate does not verify: %v", va.Sender, err)
			}
		}
		for _, ev := range cert.EquivocationVotes {
			if m := count(ev.Sender); m != "" {
				return m
			}
			if ev.Proposals[0] == ev.Proposals[1] {
				return fmt.Sprintf("equivocation pair of %v has identical values", ev.Sender)
			}
			for i := 0; i < 2; i++ {
				uv := unauthenticatedVote{R: rawVote{Sender: ev.Sender, Round: cert.Round, Period: cert.Period, Step: cert.Step, Proposal: ev.Proposals[i]}, Cred: ev.Cred, Sig: ev.Sigs[i]}
				if _, err := env.verifyVote(uv, led); err != nil {
					return fmt.Sprintf("equivocation vote %d of %v in the certificate does not verify: %v", i, ev.Sender, err)
				}
			}
		}
		if stake < env.threshold {
			return fmt.Sprintf("distinct voters hold stake %d < cert threshold %d", stake, env.threshold)
		}
		return ""
	}()
	c03Memo.Store(key, res)
	return res
}

func c03CertStep() step { return cert }

func c03Oracle(r *ve.Run, b *eagrBFS, pre *eagrSys, e eagrEv, post *eagrSys, out *eagrOut, path func() []eagrEv) {
	if out.panicMsg != "" {
		r.Report("C03:panic", fmt.Sprintf("[%s] after %v: %s", b.name, e, out.panicMsg), eagrReplayOf(b, path))
		return
	}
	for _, c := range out.commits {
		led := pre.nodes[c.node].led
		if e.K == "boot" {
			led = post.nodes[c.node].led
		}
		if msg := c03CheckCert(b.cfg.env, led, c.act); msg != "" {
			r.Report("C03:bad-certificate", fmt.Sprintf("[%s] after %v: node %d hands block %v of round %d to the ledger with a certificate that does not authenticate it: %s",
				b.name, e, c.node, c.act.Payload.Digest(), c.act.Certificate.Round, msg), eagrReplayOf(b, path))
		}
		nv, ne := len(c.act.Certificate.Votes), len(c.act.Certificate.EquivocationVotes)
		r.Class(fmt.Sprintf("%s/cert/p%d/votes%d/eq%d", b.name, c.period, nv, ne))
	}
}

func TestVerif_C03(t *testing.T) {
	var certs int64
	eagrRunCheck(t, &eagrCheck{
		id: "C03", level: "model_checking",
		configs: eagrSafetyConfigs(ve.Pick(1, 2)),
		oracle:  c03Oracle,
		rule: "Every ensureAction emitted on every explored transition: certificate is a cert-step bundle for the payload's round and digest, accepted by the real Certificate.Authenticate, with distinct voters whose genesis stake (recounted independently) reaches the cert threshold and whose votes verify individually.",
		assume: []string{
			"as C01 (node shell re-implements Service.do/demux/pseudonode; deterministic sortition; decoded structs on the wire)",
			"stake of every account is 1 microalgo, so the independent weight recount is the number of distinct voters",
		},
		finish: func(r *ve.Run, total *eagrStats) {
			c03Memo.Range(func(k, v any) bool { certs++; return true })
			r.Set("distinct_certificates_authenticated", certs)
		},
	})
}
