package ledger

// C24 — Fees and proposer payouts stay within their limits.
//
// Engine E-ENUM (exhaustive small-scope input enumeration), level exploration.
//
// Part A — group fee requirement. Every group of n = 1..3 transactions whose members
// are drawn from 6 transaction shapes x 5 fees {0, min-1, min, 2*min, 3*min} is pushed
// through TestTransactionGroup + TransactionGroup of a fresh real BlockEvaluator on a
// real ledger (quick tier: n <= 2 complete, n = 3 over 3 shapes; thorough: complete):
//   pay | pay with a note 100 bytes over the free size (per-byte surcharge) |
//   app call issuing 1 inner payment with inner fee 0 | min | 2*min |
//   app call issuing 2 inner payments with inner fee 0.
// The "spender" app is assembled by the real assembler; inner fees are paid by the
// (funded) app account, underpaid inner fees draw on the fees pooled in the group.
// Oracle (written from the statement / fee section of the spec, integer arithmetic):
//   required(top)  = ceil(min * sum(usage_i) / 1e6), usage_i = 1e6 + surcharge(note_i)
//   necessary:  accepted  =>  sum(top fees) >= required(top)  and
//               sum(top fees + inner fees) >= required(top) + min * #inner   (statement)
//   sufficient: if, walking the inner transactions in execution order, the pooled
//               surplus never goes negative, the group must be accepted.
//   Groups whose total covers the requirement but where an inner transaction underpays
//   before a later overpayment arrives are order-sensitive: either verdict is allowed.
//
// Part B — proposer payout. For bonus in {0, protocol bonus} (private consensus version
// without a bonus plan for 0), fees collected in {0, 1001, 3001} (odd totals, so that the
// percentage has to round), fee sink plain or opted in to an asset in committed blocks
// (its minimum balance is then two units), fee-sink balance after fee collection in
// {min-1, min, min+1, min+P-1, min+P, large} (min = the sink's own minimum balance,
// P = percent*fees + bonus),
// proposer in {funded account, never-funded account, "ineligible" (agreement zeroes the
// payout)}, claimed ProposerPayout in {0, allowed-1, allowed, allowed+1, 2^64-1}: the
// block is built by the generator (GenerateBlock), the header field is overwritten and
// the block is re-evaluated with validation (eval.Eval validate=true, the code path of
// Ledger.Validate; signature checks mocked). Oracle: allowed = min(floor(percent*fees/100)
// + bonus, sink - minBalance(sink)) computed by the harness; accepted iff claimed <=
// allowed (a too-low claim is fine); the generator itself never claims more than allowed;
// after an accepted block that paid anything the fee sink is >= its minimum balance.
// A non-zero payout to a never-funded ("closed") proposer is bracketed (code rejects it;
// the statement is silent).
//
// Not covered: logic-sig / PQ signature fee contributions, large-program surcharges,
// fee overflow near 2^64, keyreg 2-Algo eligibility fee, heartbeat discount.
//
// Mutants, all DETECTED by the quick tier (bin/mut ... --only):
//   M1 eval.go proposerPayout: `available := sink.AvailableBalance(&eval.proto)` -> `available := sink.MicroAlgos`
//   M2 eval.go TransactionGroup: SummarizeFees(txgroup[:1], ...) (first transaction only)
//   M3 eval.go validateForPayouts: `payout.Raw > expectedPayout.Raw` -> `payout.Raw > expectedPayout.Raw+1`
//   M4 signedtxn.go SummarizeFees: usage of the last transaction not counted
//   M5 logic/eval.go opItxnSubmit: inner shortfall not deducted from the fee credit

// Independent seeded changes: C24-A (proposer share rounded up for odd fee totals) DETECTED
// through the odd fee totals 1001/3001; C24-B (AvailableBalance subtracting the bare
// proto.MinBalance instead of the sink's own minimum balance) DETECTED since the ledgers
// whose fee sink opted in to an asset were added.

import (
	"context"
	"errors"
	"fmt"
	"math"
	"math/big"
	"os"
	"path/filepath"
	"runtime/debug"
	"strings"
	"sync"
	"testing"

	"github.com/algorand/go-deadlock"

	"github.com/algorand/go-algorand/config"
	"github.com/algorand/go-algorand/crypto"
	"github.com/algorand/go-algorand/data/basics"
	"github.com/algorand/go-algorand/data/bookkeeping"
	"github.com/algorand/go-algorand/data/committee"
	"github.com/algorand/go-algorand/data/transactions"
	"github.com/algorand/go-algorand/data/transactions/logic"
	"github.com/algorand/go-algorand/data/transactions/verify"
	"github.com/algorand/go-algorand/data/txntest"
	"github.com/algorand/go-algorand/ledger/eval"
	"github.com/algorand/go-algorand/ledger/ledgercore"
	ledgertesting "github.com/algorand/go-algorand/ledger/testing"
	"github.com/algorand/go-algorand/logging"
	"github.com/algorand/go-algorand/protocol"
	ve "github.com/algorand/go-algorand/verifeng"
)

const c24spender = `
txn ApplicationID
bz L_ok
txn NumAppArgs
bz L_ok
int 0
store 0
L_loop:
load 0
txn ApplicationArgs 0
btoi
>=
bnz L_ok
itxn_begin
int pay
itxn_field TypeEnum
txn Sender
itxn_field Receiver
txn ApplicationArgs 1
btoi
itxn_field Fee
itxn_submit
load 0
int 1
+
store 0
b L_loop
L_ok:
int 1
`

func c24openLedger(dir, name string, cv protocol.ConsensusVersion, gb bookkeeping.GenesisBalances, lean bool) (*Ledger, error) {
	var genHash crypto.Digest
	copy(genHash[:], "verif-c24-genesis-hash")
	genBlock, err := bookkeeping.MakeGenesisBlock(cv, gb, "verif", genHash)
	if err != nil {
		return nil, err
	}
	cfg := config.GetDefaultLocal()
	cfg.Archival = true
	if lean { // no large preallocated caches (supported configuration)
		cfg.DisableLedgerLRUCache = true
		cfg.TxPoolSize = 64
		cfg.VerifiedTranscationsCacheSize = 64
	}
	log := logging.NewLogger()
	log.SetLevel(logging.Error)
	return OpenLedger(log, filepath.Join(dir, name), true, ledgercore.InitState{
		Block: genBlock, Accounts: gb.Balances, GenesisHash: genHash}, cfg)
}

func c24startEval(l *Ledger) (*eval.BlockEvaluator, error) {
	hdr, err := l.BlockHdr(l.Latest())
	if err != nil {
		return nil, err
	}
	next := bookkeeping.MakeBlock(hdr).BlockHeader
	next.TimeStamp = hdr.TimeStamp + 1
	return eval.StartEvaluator(l, next, eval.EvaluatorOptions{Generate: true, Validate: true})
}

// c24tally counts cases per outcome class (evidence only).
type c24tally struct {
	mu sync.Mutex
	m  map[string]int
}

func (c *c24tally) add(r *ve.Run, k string) {
	r.Class(k)
	c.mu.Lock()
	c.m[k]++
	c.mu.Unlock()
}

var c24classes = &c24tally{m: map[string]int{}}

// ---------------------------------------------------------------- part A

type c24shape struct {
	name     string
	app      bool
	inners   int
	innerFee uint64 // in units of min fee
	bigNote  bool
}

type c24groupEnv struct {
	l      *Ledger
	proto  config.ConsensusParams
	addrs  []basics.Address
	app    basics.AppIndex
	shapes []c24shape
	fees   []uint64
}

const c24noteExcess = 100

type c24groupCase struct {
	Shapes []string
	Fees   []uint64
}

// c24groupOracle returns (mustAccept, mustReject, reason).
func (e *c24groupEnv) oracle(shapes []c24shape, fees []uint64) (mustAccept, mustReject bool, reason string) {
	min := new(big.Int).SetUint64(e.proto.MinTxnFee)
	usage := new(big.Int)
	paid := new(big.Int)
	for i, s := range shapes {
		u := big.NewInt(1_000_000)
		if s.bigNote {
			// each byte over the free note size costs PerByteTxnSurcharge millionths of a min fee
			u.Add(u, new(big.Int).Mul(big.NewInt(int64(e.proto.PerByteTxnSurcharge)), big.NewInt(c24noteExcess)))
		}
		usage.Add(usage, u)
		paid.Add(paid, new(big.Int).SetUint64(fees[i]))
	}
	req := new(big.Int).Mul(min, usage)
	req.Add(req, big.NewInt(999_999))
	req.Div(req, big.NewInt(1_000_000)) // ceil
	if paid.Cmp(req) < 0 {
		return false, true, "top-level fees below requirement"
	}
	// statement's sum rule over everything that would execute
	total := new(big.Int).Set(paid)
	need := new(big.Int).Set(req)
	for _, s := range shapes {
		for j := 0; j < s.inners; j++ {
			total.Add(total, new(big.Int).Mul(min, new(big.Int).SetUint64(s.innerFee)))
			need.Add(need, min)
		}
	}
	if total.Cmp(need) < 0 {
		return false, true, "total fees (incl. inner) below requirement"
	}
	// execution-order walk of the pooled surplus
	credit := new(big.Int).Sub(paid, req)
	for _, s := range shapes {
		for j := 0; j < s.inners; j++ {
			f := new(big.Int).Mul(min, new(big.Int).SetUint64(s.innerFee))
			credit.Add(credit, f)
			credit.Sub(credit, min)
			if credit.Sign() < 0 {
				return false, false, "order-sensitive: inner underpays before surplus arrives"
			}
		}
	}
	return true, false, "covered"
}

func (e *c24groupEnv) run(r *ve.Run, shapes []c24shape, fees []uint64) {
	ev, err := c24startEval(e.l)
	if err != nil {
		panic("harness: " + err.Error())
	}
	txs := make([]*txntest.Txn, len(shapes))
	cs := c24groupCase{}
	for i, s := range shapes {
		tx := &txntest.Txn{Sender: e.addrs[1+i], Fee: fees[i], FirstValid: ev.Round(), GenesisHash: e.l.GenesisHash()}
		note := fmt.Sprintf("c24 %d", i)
		if s.app {
			tx.Type = protocol.ApplicationCallTx
			tx.ApplicationID = e.app
			tx.ApplicationArgs = [][]byte{{0, 0, 0, 0, 0, 0, 0, byte(s.inners)}, make([]byte, 8)}
			f := s.innerFee * e.proto.MinTxnFee
			for b := 0; b < 8; b++ {
				tx.ApplicationArgs[1][7-b] = byte(f >> (8 * b))
			}
		} else {
			tx.Type = protocol.PaymentTx
			tx.Receiver = e.addrs[5]
			tx.Amount = 1
			if s.bigNote {
				note += strings.Repeat("n", e.proto.MaxTxnNoteBytes+c24noteExcess-len(note))
			}
		}
		tx.Note = note
		tx.FillDefaults(e.proto) // fee is already set, only LastValid etc.
		txs[i] = tx
		cs.Shapes = append(cs.Shapes, s.name)
		cs.Fees = append(cs.Fees, fees[i])
	}
	var grp []transactions.SignedTxn
	if len(txs) == 1 {
		grp = []transactions.SignedTxn{txs[0].SignedTxn()}
	} else {
		grp = txntest.Group(txs...)
	}
	err = ev.TestTransactionGroup(grp)
	if err == nil {
		err = ev.TransactionGroup(transactions.WrapSignedTxnsWithAD(grp)...)
	}
	r.Eval()
	var pe ledgercore.EvalPanicError
	if errors.As(err, &pe) {
		r.Report("C24:panic", fmt.Sprintf("group %+v panicked inside the evaluator: %v", cs, err), cs)
		return
	}
	accepted := err == nil
	mustAccept, mustReject, reason := e.oracle(shapes, fees)
	cls := "other"
	if err != nil {
		switch m := err.Error(); {
		case strings.Contains(m, "fees is less than"):
			cls = "group-fee"
		case strings.Contains(m, "too small"):
			cls = "inner-fee"
		default:
			cls = m
			if len(cls) > 50 {
				cls = cls[:50]
			}
		}
	} else {
		cls = "ok"
	}
	c24classes.add(r, fmt.Sprintf("A/n%d/%s/%s", len(shapes), reason, cls))
	switch {
	case mustReject && accepted:
		r.Report("C24:underpaid-group-accepted", fmt.Sprintf("group %+v accepted although %s", cs, reason), cs)
	case mustAccept && !accepted:
		r.Report("C24:covered-group-rejected", fmt.Sprintf("group %+v covers its minimum fee requirement but was rejected: %v", cs, err), cs)
	}
	if accepted && ev.PaySetSize() != len(shapes) {
		r.Report("C24:payset", fmt.Sprintf("group %+v accepted but payset has %d entries", cs, ev.PaySetSize()), cs)
	}
}

// ---------------------------------------------------------------- part B

type c24payoutCase struct {
	Bonus    uint64
	Fees     uint64
	Sink     uint64 // fee sink balance after collecting the block's fees
	Proposer string
	Claim    uint64
	Allowed  uint64
	SinkMin  uint64
}

type c24payoutEnv struct {
	l        *Ledger
	proto    config.ConsensusParams
	addrs    []basics.Address
	sink     basics.Address
	fees     uint64
	bonus    uint64
	sinkPost uint64
	sinkMin  uint64 // the fee sink's own minimum balance (base + one unit per asset it holds)
	sinkAsa  basics.AssetIndex // asset the fee sink holds (0: none)
}

func (e *c24payoutEnv) run(r *ve.Run, proposerKind int, claimSel int, sinkTx bool) {
	ev, err := c24startEval(e.l)
	if err != nil {
		panic("harness: " + err.Error())
	}
	if e.fees > 0 {
		tx := &txntest.Txn{Type: protocol.PaymentTx, Sender: e.addrs[1], Receiver: e.addrs[2], Amount: 1, Fee: e.fees,
			FirstValid: ev.Round(), GenesisHash: e.l.GenesisHash(), Note: "c24 payout"}
		tx.FillDefaults(e.proto)
		grp := []transactions.SignedTxn{tx.SignedTxn()}
		if err := ev.TransactionGroup(transactions.WrapSignedTxnsWithAD(grp)...); err != nil {
			panic("harness: fee-carrying payment rejected: " + err.Error())
		}
	}
	if sinkTx {
		// the fee sink itself sends a NON-payment transaction with a large fee: the fee goes from the
		// sink to the sink, nothing is collected, so neither FeesCollected nor the allowed payout move
		tx := &txntest.Txn{Type: protocol.AssetTransferTx, Sender: e.sink, AssetReceiver: e.sink, XferAsset: e.sinkAsa, Fee: 7 * e.proto.MinTxnFee,
			FirstValid: ev.Round(), GenesisHash: e.l.GenesisHash(), Note: "c24 sink self"}
		tx.FillDefaults(e.proto)
		grp := []transactions.SignedTxn{tx.SignedTxn()}
		if err := ev.TransactionGroup(transactions.WrapSignedTxnsWithAD(grp)...); err != nil {
			panic("harness: fee sink's own asset transfer rejected: " + err.Error())
		}
	}
	ub, err := ev.GenerateBlock(nil)
	if err != nil {
		r.Report("C24:generate-block", fmt.Sprintf("GenerateBlock failed: %v", err), nil)
		return
	}
	gen := ub.UnfinishedBlock()

	// harness formula
	minBal := e.sinkMin // the sink's OWN minimum balance: base, plus one unit per asset holding
	pct := new(big.Int).Mul(new(big.Int).SetUint64(e.proto.Payouts.Percent), new(big.Int).SetUint64(e.fees))
	pct.Div(pct, big.NewInt(100))
	share := new(big.Int).Add(pct, new(big.Int).SetUint64(e.bonus))
	avail := new(big.Int)
	if e.sinkPost > minBal {
		avail.SetUint64(e.sinkPost - minBal)
	}
	allowedB := share
	if avail.Cmp(share) < 0 {
		allowedB = avail
	}
	allowed := allowedB.Uint64()

	cs := c24payoutCase{Bonus: e.bonus, Fees: e.fees, Sink: e.sinkPost, Allowed: allowed, SinkMin: minBal}
	if sinkTx && gen.BlockHeader.FeesCollected.Raw != e.fees {
		r.Report("C24:sink-own-fee-collected", fmt.Sprintf("block with a fee-sink-sent asset transfer (fee %d, paid by the sink to itself) reports FeesCollected %d; really collected: %d (%+v)", 7*e.proto.MinTxnFee, gen.BlockHeader.FeesCollected.Raw, e.fees, cs), cs)
		return
	}
	if gen.BlockHeader.Bonus.Raw != e.bonus || gen.BlockHeader.FeesCollected.Raw != e.fees {
		panic(fmt.Sprintf("harness: generated header has bonus %d fees %d, expected %d %d", gen.BlockHeader.Bonus.Raw, gen.BlockHeader.FeesCollected.Raw, e.bonus, e.fees))
	}
	if g := gen.BlockHeader.ProposerPayout.Raw; g > allowed {
		r.Report("C24:generator-overclaims", fmt.Sprintf("generator proposes payout %d, allowed is %d (%+v)", g, allowed, cs), cs)
		// keep going: the validator's verdict on the explicit claims is checked as well
	}

	var claim uint64
	switch claimSel {
	case 0:
		claim = 0
	case 1:
		if allowed == 0 {
			return
		}
		claim = allowed - 1
	case 2:
		if allowed == 0 {
			return // same as case 0
		}
		claim = allowed
	case 3:
		claim = allowed + 1
	case 4:
		claim = math.MaxUint64
	case 5: // what the generator itself proposes
		claim = gen.BlockHeader.ProposerPayout.Raw
	}

	var proposer basics.Address
	eligible := true
	switch proposerKind {
	case 0:
		proposer, cs.Proposer = e.addrs[3], "funded"
	case 1:
		proposer, cs.Proposer = basics.Address{0xc2, 0x4c, 0x10, 0x5e, 0xd0}, "never-funded"
	case 2:
		proposer, cs.Proposer, eligible = e.addrs[3], "ineligible", false
	}
	blk := ub.FinishBlock(committee.Seed(proposer), proposer, eligible)
	if !eligible {
		if blk.BlockHeader.ProposerPayout.Raw != 0 {
			r.Report("C24:ineligible-paid", fmt.Sprintf("block finished for an ineligible proposer still carries payout %d", blk.BlockHeader.ProposerPayout.Raw), cs)
			return
		}
		if claimSel != 0 {
			return // the claim is forced to zero by agreement; one case only
		}
	} else {
		blk.BlockHeader.ProposerPayout = basics.MicroAlgos{Raw: claim}
	}
	cs.Claim = claim

	delta, err := eval.Eval(context.Background(), e.l, blk, true, verify.GetMockedCache(true), nil, nil)
	r.Eval()
	var pe ledgercore.EvalPanicError
	if errors.As(err, &pe) {
		r.Report("C24:panic", fmt.Sprintf("validation of %+v panicked: %v", cs, err), cs)
		return
	}
	accepted := err == nil
	want := claim <= allowed
	either := proposerKind == 1 && claim > 0 && want // payout to a closed account: code refuses, statement silent
	c24classes.add(r, fmt.Sprintf("B/bonus=%v/fees=%v/sinkasset=%v/%s/claim%d/want=%v/got=%v", e.bonus > 0, e.fees > 0, e.sinkMin > e.proto.MinBalance, cs.Proposer, claimSel, want, accepted))
	switch {
	case either:
	case want && !accepted:
		r.Report("C24:allowed-payout-rejected", fmt.Sprintf("block claiming %d (allowed %d) was rejected: %v (%+v)", claim, allowed, err, cs), cs)
		return
	case !want && accepted:
		r.Report("C24:excess-payout-accepted", fmt.Sprintf("block claiming %d was accepted although only %d is allowed (%+v)", claim, allowed, cs), cs)
		return
	}
	if accepted {
		sinkAfter := e.sinkPost
		if ad, ok := delta.Accts.GetData(e.sink); ok {
			sinkAfter = ad.MicroAlgos.Raw
		} else if e.fees > 0 || claim > 0 {
			r.Report("C24:sink-untouched", fmt.Sprintf("fee sink not in the block delta although fees/payout moved (%+v)", cs), cs)
			return
		}
		if claim > 0 && sinkAfter < minBal {
			r.Report("C24:sink-below-min", fmt.Sprintf("after paying %d the fee sink holds %d < min balance %d (%+v)", claim, sinkAfter, minBal, cs), cs)
		}
		if sinkAfter != e.sinkPost-claim {
			r.Report("C24:sink-balance", fmt.Sprintf("fee sink holds %d after the block, expected %d - %d (%+v)", sinkAfter, e.sinkPost, claim, cs), cs)
		}
	}
}

func TestVerif_C24(t *testing.T) {
	deadlock.Opts.Disable = true // harness-only: lock-order bookkeeping dominates the run time otherwise
	defer debug.SetGCPercent(debug.SetGCPercent(400))
	r := ve.NewRun("C24", "exploration")
	dir := ve.ScratchDir("c24")
	defer os.RemoveAll(dir)

	cv := protocol.ConsensusCurrentVersion
	proto := config.Consensus[cv]
	if !proto.Payouts.Enabled || proto.Bonus.BaseAmount == 0 {
		t.Fatalf("harness: current protocol has no payouts/bonus")
	}
	// private version without a bonus plan (bonus stays 0 from genesis)
	cvNoBonus := protocol.ConsensusVersion("verif-c24-nobonus")
	nb := proto
	nb.Bonus = config.BonusPlan{}
	config.Consensus[cvNoBonus] = nb
	defer delete(config.Consensus, cvNoBonus)

	min := proto.MinTxnFee
	var ledgers []*Ledger
	defer func() {
		for _, l := range ledgers {
			l.Close()
		}
	}()

	// ---------------- part A
	{
		gb, addrs, _ := ledgertesting.NewTestGenesis(ledgertesting.TurnOffRewards)
		l, err := c24openLedger(dir, "groups", cv, gb, false)
		if err != nil {
			t.Fatalf("harness: %v", err)
		}
		ledgers = append(ledgers, l)
		ops, err := logic.AssembleString(fmt.Sprintf("#pragma version %d\n", proto.LogicSigVersion) + c24spender)
		if err != nil {
			t.Fatalf("harness: assemble: %v", err)
		}
		clear, err := logic.AssembleString(fmt.Sprintf("#pragma version %d\nint 1", proto.LogicSigVersion))
		if err != nil {
			t.Fatalf("harness: assemble: %v", err)
		}
		ev := nextBlock(t, l)
		txn(t, l, ev, &txntest.Txn{Type: "appl", Sender: addrs[0], ApprovalProgram: ops.Program, ClearStateProgram: clear.Program})
		app := basics.AppIndex(ev.TestingTxnCounter())
		txn(t, l, ev, &txntest.Txn{Type: "pay", Sender: addrs[0], Receiver: app.Address(), Amount: 50_000_000})
		endBlock(t, l, ev)

		all := []c24shape{
			{name: "pay"},
			{name: "app(1 inner, fee 0)", app: true, inners: 1, innerFee: 0},
			{name: "app(1 inner, fee 2min)", app: true, inners: 1, innerFee: 2},
			{name: "pay+bignote", bigNote: true},
			{name: "app(1 inner, fee min)", app: true, inners: 1, innerFee: 1},
			{name: "app(2 inners, fee 0)", app: true, inners: 2, innerFee: 0},
		}
		e := &c24groupEnv{l: l, proto: proto, addrs: addrs, app: app, shapes: all, fees: []uint64{0, min - 1, min, 2 * min, 3 * min}}
		for n := 1; n <= 3; n++ {
			shapes := all
			if n == 3 && !ve.Thorough() {
				shapes = all[:3]
			}
			per := len(shapes) * len(e.fees)
			dims := make([]int, n)
			for i := range dims {
				dims[i] = per
			}
			total := ve.ProductSize(dims)
			r.ParallelFor(total, func(i int) {
				idx := make([]int, n)
				ve.Unrank(i, dims, idx)
				ss := make([]c24shape, n)
				ff := make([]uint64, n)
				for k, v := range idx {
					ss[k] = shapes[v/len(e.fees)]
					ff[k] = e.fees[v%len(e.fees)]
				}
				e.run(r, ss, ff)
			})
			r.Note("part A: n=%d, %d shapes x %d fees => %d groups", n, len(shapes), len(e.fees), total)
		}
		r.Sample(c24groupCase{Shapes: []string{"pay", "app(1 inner, fee 0)"}, Fees: []uint64{2 * min, min}})
	}

	// ---------------- part B
	if r.Violations() == 0 {
		const feeF = 3001 // odd, so that the percentage has to round
		nCases := 0
		for _, bonusOn := range []bool{false, true} {
			pcv, bonus := cvNoBonus, uint64(0)
			if bonusOn {
				pcv, bonus = cv, proto.Bonus.BaseAmount
			}
			for _, fees := range []uint64{0, 1001, feeF} {
				for _, sinkAsset := range []bool{false, true} {
					P := proto.Payouts.Percent*fees/100 + bonus
					// the sink's own minimum balance: the base amount, plus the same again for an asset holding
					minBal := proto.MinBalance
					setupFees := uint64(0)
					if sinkAsset {
						minBal += proto.MinBalance
						setupFees = proto.MinTxnFee // the asset creator's fee lands in the sink (the sink's own opt-in fee returns to it)
					}
					grid := []uint64{minBal - 1, minBal, minBal + 1, minBal + P - 1, minBal + P, minBal + 10*P + 1_000_000}
					if fees == 1001 {
						grid = []uint64{minBal + P - 1, minBal + P, minBal + 10*P + 1_000_000} // second odd fee total: payout boundary only
					}
					seen := map[uint64]bool{}
					for _, sinkPost := range grid {
						if seen[sinkPost] || sinkPost < fees+setupFees {
							continue
						}
						seen[sinkPost] = true
						gb, addrs, _ := ledgertesting.NewTestGenesis(ledgertesting.TurnOffRewards, ledgertesting.InitialFeeSinkBalance(sinkPost-fees-setupFees))
						l, err := c24openLedger(dir, fmt.Sprintf("payout-%v-%d-%v-%d", bonusOn, fees, sinkAsset, sinkPost), pcv, gb, true)
						if err != nil {
							t.Fatalf("harness: %v", err)
						}
						ledgers = append(ledgers, l)
						var sinkAsa basics.AssetIndex
						if sinkAsset {
							// committed history: an asset is created and the fee sink opts in to it
							// (blocks proposed by the sink itself, so payouts do not move money)
							ev := nextBlock(t, l)
							txn(t, l, ev, &txntest.Txn{Type: "acfg", Sender: addrs[0], AssetParams: basics.AssetParams{Total: 10, UnitName: "c24"}})
							asa := basics.AssetIndex(ev.TestingTxnCounter())
							sinkAsa = asa
							endBlock(t, l, ev)
							ev = nextBlock(t, l)
							txn(t, l, ev, &txntest.Txn{Type: "axfer", Sender: gb.FeeSink, AssetReceiver: gb.FeeSink, XferAsset: asa})
							endBlock(t, l, ev)
						}
						if have := micros(t, l, gb.FeeSink); have != sinkPost-fees {
							t.Fatalf("harness: fee sink holds %d after setup, wanted %d", have, sinkPost-fees)
						}
						e := &c24payoutEnv{l: l, proto: config.Consensus[pcv], addrs: addrs, sink: gb.FeeSink, fees: fees, bonus: bonus, sinkPost: sinkPost, sinkMin: minBal, sinkAsa: sinkAsa}
						dims := []int{3, 6, 1}
						if sinkAsset {
							dims[2] = 2 // with / without a fee-carrying non-payment transaction sent by the sink itself
						}
						total := ve.ProductSize(dims)
						nCases += total
						r.ParallelFor(total, func(i int) {
							idx := make([]int, 3)
							ve.Unrank(i, dims, idx)
							e.run(r, idx[0], idx[1], idx[2] == 1)
						})
						if len(seen) == 4 {
							r.Sample(c24payoutCase{Bonus: bonus, Fees: fees, Sink: sinkPost, Proposer: "funded", Claim: 0, SinkMin: minBal})
						}
					}
				}
			}
		}
		r.Note("part B: %d (ledger, proposer, claim) combinations before de-duplication of coinciding grid points", nCases)
	}

	r.Set("outcome_classes", c24classes.m)
	r.Assume("transactions are unsigned and signature verification is mocked (verify.GetMockedCache): fees and payouts do not depend on signatures")
	r.Assume("fee-sink minimum balance = proto.MinBalance, or 2*proto.MinBalance in the ledgers where the sink opted in to one asset (harness formula: one base unit per asset holding)")
	r.Assume("inner payments are issued one per itxn_submit, in program order; their fee is paid by the funded app account")
	n := r.Finish(ve.Coverage{Rule: "A: every group of 1..3 txns over 6 shapes (pay, big-note pay, app calls with 1-2 inner payments at inner fee 0/min/2min) x fees {0,min-1,min,2min,3min} (quick: n=3 over 3 shapes) through the real evaluator vs the harness' integer fee rule; B: bonus {0,b} x fees {0,1001,3001} x fee sink {plain, opted in to an asset (then also: the sink itself sends a fee-carrying asset transfer in the block)} x up to 6 fee-sink balances around ITS minBalance and minBalance+payout x 3 proposer kinds x claimed payout {0,allowed-1,allowed,allowed+1,2^64-1,generator's} re-evaluated with validation vs allowed=min(pct*fees+bonus, sink-minBalance)", Exhaustive: true})
	if n > 0 {
		t.Fatal("violations")
	}
}
