package stateproof

// C38 — State-proof prover and verifier agree on the required reveals.
//
// Engine E-ENUM, level exploration; real numReveals, verifyWeights, LnIntApproximation,
// makeCoinGenerator / getNextCoin.
//
// Enumerated weights W = {2^k, 2^k-1, 2^k+1 : k <= 63} + {3*2^k : k <= 62} + {3, 10^n : n <= 19}
// + {2^64-1} (thorough adds 5*2^k, 7*2^k, 2^k+-3). For EVERY pair (signedWeight, p) in W x W
// and strengthTarget in {1, 64, 128, 256, 2^16}:
//   lnProvenWeight = LnIntApproximation(p)  (p = 0 must be refused by LnIntApproximation;
//   signedWeight = 0 must be refused by verifyWeights and is not handed to numReveals, which
//   the prover never calls with it).
//
// Oracle, from the inequality documented above verifyWeights/numReveals, re-evaluated here
// in math/big (c38holds; own computation of d, Y, the constants b = 16 and T = 45427 written
// out literally):
//      r * (3*2^b*(sw^2 - 2^2d) + d*(T-1)*Y) >= (target*T + r*P) * Y,
//      Y = sw^2 + 2^(d+2)*sw + 2^2d,  2^d <= sw < 2^(d+1)
//   (1) p >= signedWeight (inadmissible: "signed weight is less than or equal to proven
//       weight") => numReveals returns an error, and verifyWeights rejects every
//       r in {0, 1, 2, 64, MaxReveals};
//   (2) numReveals succeeded with r => r <= MaxReveals, c38holds(r), verifyWeights(r) == nil;
//   (3) for EVERY r' < r: verifyWeights(r') == nil  <=>  c38holds(r') (in particular every
//       smaller count violating the inequality is rejected); also r' = MaxReveals+1 rejected;
//   (4) paper-level sanity of (2), independent of the integer formula: the real inequality
//       r * (ln sw - ln p) >= target * ln 2 holds (float64, relative slack 1e-9; the integer
//       form is a conservative rounding of it);
//   (5) numReveals failing for admissible p < sw is allowed (approximation gap, MaxReveals);
//       counted, not judged.
// Boundary seeking (added after the seeded change C39-B was missed): for every signed weight
// of W and every target, P -> numReveals(sw, P, target) is a step function of lnProvenWeight;
// all its steps in [0, 2^22] are located by bisection (every reachable count 1..MaxReveals
// and the first refusal), and oracle (2)/(3) runs just below and at each step, plus just
// above and with EVERY smaller count for counts >= MaxReveals-2 (so instances with exactly
// MaxReveals-1, MaxReveals reveals and the first refused one are always included).
// Coins: for 64 signed weights (those with the highest rejection probability, i.e. just
// above 2^63, 2^62, ..., plus small and decimal ones) x 8 seeds, the first 256 coins of
// getNextCoin are all < signedWeight, and a second generator over the same seed yields the
// same sequence (prover and verifier derive identical coins).
//
// Not covered: weights off the grid; strength targets other than the five; the float
// rounding inside LnIntApproximation is taken as is (P is whatever it returns).
//
// Unexported identifiers used: numReveals, verifyWeights, makeCoinGenerator, coinChoiceSeed,
// coinGenerator.getNextCoin, ln2IntApproximation/precisionBits (only to cross-check the
// literals).
//
// Mutants (bin/mut C38 ... --only; all DETECTED):
//   M1 weights.go numReveals off by one (`.Uint64() + 1` -> `.Uint64()`)
//   M2 coinGenerator.go getNextCoin masks to the next power of two instead of
//      rejecting + reducing
//   M3 weights.go getSubExpressions uses w = d*T instead of d*(T-1): prover and verifier
//      still agree with each other; only the independent formula (2)/(3) notices
//   S1 (seeded C39-B) verifyWeights refuses `numOfReveals >= MaxReveals`: MISSED by the grid
//      (no grid pair needs exactly 640 reveals), DETECTED by the boundary search
//   S2 (seeded C38-A) numReveals checks the bound before the +1: DETECTED (grid and boundary)
//   M4 weights.go verifyWeights compares with `<= 0` shifted by one reveal
//      (`Mul(bigInt(numOfReveals), lhs)` -> numOfReveals+1): verifier accepts one reveal
//      too few -> (3)

import (
	"encoding/binary"
	"fmt"
	"math"
	"math/big"
	"sort"
	"testing"

	ve "github.com/algorand/go-algorand/verifeng"
)

const c38T = 45427 // ceil(2^16 * ln 2), documented constant
const c38B = 16

// c38holds evaluates the documented verifier inequality independently.
func c38holds(sw, lnProven, r, target uint64) bool {
	if sw == 0 {
		return false
	}
	d := uint(0)
	for d < 63 && sw>>(d+1) != 0 {
		d++
	}
	S := new(big.Int).SetUint64(sw)
	S2 := new(big.Int).Mul(S, S)
	twoTo2d := new(big.Int).Lsh(big.NewInt(1), 2*d)
	Y := new(big.Int).Lsh(S, d+2) // 2^(d+2)*sw
	Y.Add(Y, S2).Add(Y, twoTo2d)
	// A = 3*2^b*(sw^2 - 2^2d) + d*(T-1)*Y
	A := new(big.Int).Sub(S2, twoTo2d)
	A.Mul(A, big.NewInt(3)).Lsh(A, c38B)
	dT := new(big.Int).Mul(big.NewInt(int64(d)), big.NewInt(c38T-1))
	A.Add(A, dT.Mul(dT, Y))
	R := new(big.Int).SetUint64(r)
	lhs := new(big.Int).Mul(R, A)
	rhs := new(big.Int).Mul(new(big.Int).SetUint64(target), big.NewInt(c38T))
	rhs.Add(rhs, new(big.Int).Mul(R, new(big.Int).SetUint64(lnProven)))
	rhs.Mul(rhs, Y)
	return lhs.Cmp(rhs) >= 0
}

const c38inf = uint64(1) << 62 // "refused" in the breakpoint search

// c38point runs the success-side oracle on one (signedWeight, lnProvenWeight, target) given
// directly by its lnProvenWeight (what MkVerifierWithLnProvenWeight / the ledger hand to the
// verifier). full = also compare verifyWeights with the independent inequality for EVERY
// smaller reveal count (otherwise only for r-1).
func c38point(r *ve.Run, sw, ln, target uint64, full bool, origin string) (nr uint64, ok bool) {
	rep := map[string]any{"engine": "enum", "signedWeight": sw, "lnProvenWeight": ln, "strengthTarget": target, "origin": origin}
	nr, err := numReveals(sw, ln, target)
	r.Eval()
	if err != nil {
		return 0, false
	}
	if nr > MaxReveals {
		r.Report("C38:too-many-reveals", fmt.Sprintf("numReveals(sw=%d, lnProvenWeight=%d, target=%d) = %d > MaxReveals [%s]", sw, ln, target, nr, origin), rep)
	}
	if !c38holds(sw, ln, nr, target) {
		r.Report("C38:prover-violates-inequality", fmt.Sprintf("numReveals(sw=%d, lnProvenWeight=%d, target=%d) = %d does not satisfy the documented inequality [%s]", sw, ln, target, nr, origin), rep)
	}
	r.Eval()
	if err := verifyWeights(sw, ln, nr, target); err != nil {
		r.Report("C38:verifier-rejects-prover", fmt.Sprintf("verifyWeights(sw=%d, lnProvenWeight=%d, reveals=%d, target=%d) = %v for the prover's own reveal count [%s]", sw, ln, nr, target, err, origin), rep)
	}
	from := uint64(0)
	if !full && nr > 0 {
		from = nr - 1
	}
	for x := from; x < nr; x++ {
		want := c38holds(sw, ln, x, target)
		got := verifyWeights(sw, ln, x, target) == nil
		r.Eval()
		if got != want {
			key := "C38:verifier-accepts-violating-count"
			if want {
				key = "C38:verifier-rejects-satisfying-count"
			}
			r.Report(key, fmt.Sprintf("verifyWeights(sw=%d, lnProvenWeight=%d, reveals=%d, target=%d) accepted=%v but the documented inequality evaluates to %v (prover chose %d) [%s]", sw, ln, x, target, got, want, nr, origin), rep)
			break
		}
	}
	return nr, true
}

// c38breakpoints returns every lnProvenWeight P in (0, hi] at which numReveals(sw, P, target)
// changes its value (refusal counts as one value), found by bisection: the reveal count is a
// step function of P, non-decreasing until the prover refuses.
func c38breakpoints(r *ve.Run, sw, target, hi uint64) (bps []uint64, atZero uint64) {
	f := func(P uint64) uint64 {
		nr, err := numReveals(sw, P, target)
		r.Eval()
		if err != nil {
			return c38inf
		}
		return nr
	}
	var solve func(lo, hi, flo, fhi uint64)
	solve = func(lo, hi, flo, fhi uint64) {
		if flo == fhi {
			return
		}
		if hi == lo+1 {
			bps = append(bps, hi)
			return
		}
		mid := lo + (hi-lo)/2
		fm := f(mid)
		solve(lo, mid, flo, fm)
		solve(mid, hi, fm, fhi)
	}
	atZero = f(0)
	solve(0, hi, atZero, f(hi))
	return bps, atZero
}

func c38weights(thorough bool) []uint64 {
	set := map[uint64]struct{}{}
	add := func(v uint64) { set[v] = struct{}{} }
	for k := uint(0); k <= 63; k++ {
		p := uint64(1) << k
		add(p)
		add(p - 1)
		add(p + 1)
		if k <= 62 {
			add(3 << k)
		}
		if thorough {
			if k <= 61 {
				add(5 << k)
				add(7 << k)
			}
			add(p + 3)
			if p > 3 {
				add(p - 3)
			}
		}
	}
	add(3)
	t := uint64(1)
	for n := 0; n <= 19; n++ {
		add(t)
		if n < 19 {
			t *= 10
		}
	}
	add(math.MaxUint64)
	out := make([]uint64, 0, len(set))
	for v := range set {
		out = append(out, v)
	}
	sort.Slice(out, func(i, j int) bool { return out[i] < out[j] })
	return out
}

func TestVerif_C38(t *testing.T) {
	r := ve.NewRun("C38", "exploration")
	if c38T != ln2IntApproximation || c38B != precisionBits || uint64(math.Ceil(math.Ln2*float64(uint64(1)<<c38B))) != c38T {
		r.Report("C38:constants", fmt.Sprintf("ln2IntApproximation=%d precisionBits=%d differ from the documented T=ceil(2^16 ln2)=%d, b=%d", ln2IntApproximation, precisionBits, c38T, c38B), nil)
	}
	W := c38weights(ve.Thorough())
	targets := []uint64{1, 64, 128, 256, 1 << 16}

	// p = 0 / sw = 0
	if _, err := LnIntApproximation(0); err == nil {
		r.Report("C38:ln-zero", "LnIntApproximation(0) did not fail", nil)
	}
	r.Eval()
	for _, nr := range []uint64{0, 1, MaxReveals} {
		if err := verifyWeights(0, 0, nr, 128); err == nil {
			r.Report("C38:zero-signed-weight", fmt.Sprintf("verifyWeights(signedWeight=0, reveals=%d) accepted", nr), nil)
		}
		r.Eval()
	}

	nW := len(W)
	type pair struct{ sw, p uint64 }
	var pairs []pair
	for _, sw := range W {
		if sw == 0 {
			continue
		}
		for _, p := range W {
			if p == 0 {
				continue
			}
			pairs = append(pairs, pair{sw, p})
		}
	}
	done := r.ParallelFor(len(pairs), func(i int) {
		sw, p := pairs[i].sw, pairs[i].p
		ln, err := LnIntApproximation(p)
		if err != nil {
			r.Report("C38:ln-error", fmt.Sprintf("LnIntApproximation(%d) failed: %v", p, err), map[string]any{"p": p})
			return
		}
		for _, target := range targets {
			rep := map[string]any{"engine": "enum", "signedWeight": sw, "provenWeight": p, "lnProvenWeight": ln, "strengthTarget": target}
			nr, err := numReveals(sw, ln, target)
			r.Eval()
			if p >= sw {
				// (1) inadmissible
				if err == nil {
					r.Report("C38:inadmissible-accepted-prover", fmt.Sprintf("numReveals(sw=%d, ln(%d)=%d, target=%d) = %d although provenWeight >= signedWeight", sw, p, ln, target, nr), rep)
				}
				for _, x := range []uint64{0, 1, 2, 64, MaxReveals} {
					r.Eval()
					if verifyWeights(sw, ln, x, target) == nil {
						r.Report("C38:inadmissible-accepted-verifier", fmt.Sprintf("verifyWeights(sw=%d, ln(%d)=%d, reveals=%d, target=%d) accepted although provenWeight >= signedWeight", sw, p, ln, x, target), rep)
					}
				}
				r.Class(fmt.Sprintf("inadmissible/t%d/%v", target, err != nil))
				continue
			}
			if err != nil {
				// (5) allowed; classify
				kind := "other"
				switch err {
				case ErrNegativeNumOfRevealsEquation:
					kind = "negative"
				case ErrTooManyReveals:
					kind = "toomany"
				}
				r.Class(fmt.Sprintf("refused-%s/t%d", kind, target))
				r.Add("n:admissible_refused_"+kind, 1)
				continue
			}
			// (2)
			if nr > MaxReveals {
				r.Report("C38:too-many-reveals", fmt.Sprintf("numReveals(sw=%d, ln(%d)=%d, target=%d) = %d > MaxReveals", sw, p, ln, target, nr), rep)
			}
			if !c38holds(sw, ln, nr, target) {
				r.Report("C38:prover-violates-inequality", fmt.Sprintf("numReveals(sw=%d, ln(%d)=%d, target=%d) = %d does not satisfy the documented inequality", sw, p, ln, target, nr), rep)
			}
			r.Eval()
			if err := verifyWeights(sw, ln, nr, target); err != nil {
				r.Report("C38:verifier-rejects-prover", fmt.Sprintf("verifyWeights(sw=%d, ln(%d)=%d, reveals=%d, target=%d) = %v for the prover's own reveal count", sw, p, ln, nr, target, err), rep)
			}
			// (4)
			real := float64(nr) * (math.Log(float64(sw)) - math.Log(float64(p)))
			need := float64(target) * math.Ln2
			if real < need*(1-1e-9) {
				r.Report("C38:paper-inequality", fmt.Sprintf("sw=%d p=%d target=%d reveals=%d: r*(ln sw - ln p) = %g < target*ln2 = %g", sw, p, target, nr, real, need), rep)
			}
			// (3)
			minimal := true
			for x := uint64(0); x < nr; x++ {
				want := c38holds(sw, ln, x, target)
				got := verifyWeights(sw, ln, x, target) == nil
				if want && x == nr-1 {
					minimal = false
				}
				if got != want {
					key := "C38:verifier-accepts-violating-count"
					if want {
						key = "C38:verifier-rejects-satisfying-count"
					}
					r.Report(key, fmt.Sprintf("verifyWeights(sw=%d, ln(%d)=%d, reveals=%d, target=%d) accepted=%v but the documented inequality evaluates to %v (prover chose %d)", sw, p, ln, x, target, got, want, nr), rep)
					break
				}
			}
			r.EvalN(int(nr))
			r.Eval()
			if verifyWeights(sw, ln, MaxReveals+1, target) == nil {
				r.Report("C38:max-reveals", fmt.Sprintf("verifyWeights(sw=%d, reveals=MaxReveals+1) accepted", sw), rep)
			}
			bucket := "1"
			switch {
			case nr > 256:
				bucket = "257-640"
			case nr > 64:
				bucket = "65-256"
			case nr > 8:
				bucket = "9-64"
			case nr > 1:
				bucket = "2-8"
			}
			r.Class(fmt.Sprintf("ok/t%d/r%s/minimal=%v", target, bucket, minimal))
			r.Add("n:prover_ok", 1)
			if i%997 == 0 && target == 128 {
				r.Sample(map[string]any{"signedWeight": sw, "provenWeight": p, "lnProvenWeight": ln, "strengthTarget": target, "numReveals": nr, "minimal": minimal})
			}
		}
	})

	// ---- boundary seeking: every crossing of the reveal count, up to MaxReveals and the
	// first refusal. For every signed weight of the grid and every strength target the step
	// function P -> numReveals(sw, P, target) is resolved completely by bisection over
	// lnProvenWeight in [0, 2^22] (2^16 * ln 2^64 < 2^22): every P at which the count changes
	// (k-1 -> k for every reachable k <= MaxReveals, and the last accepted -> refused step).
	// The oracle runs just below and at every crossing, additionally just above for counts
	// >= MaxReveals-2 and for the refusal step; for counts >= MaxReveals-2 with the full
	// "every smaller count" comparison.
	type bcase struct{ sw, target uint64 }
	var bcases []bcase
	for _, sw := range W {
		if sw == 0 {
			continue
		}
		for _, target := range targets {
			bcases = append(bcases, bcase{sw, target})
		}
	}
	doneB := r.ParallelFor(len(bcases), func(i int) {
		sw, target := bcases[i].sw, bcases[i].target
		bps, _ := c38breakpoints(r, sw, target, 1<<22)
		pts := map[uint64]struct{}{}
		var n640, n639, nRefusal int64
		for _, b := range bps {
			pts[b-1] = struct{}{}
			pts[b] = struct{}{}
			nr, err := numReveals(sw, b, target)
			if err != nil || nr+2 >= MaxReveals {
				pts[b+1] = struct{}{}
			}
			if err != nil {
				nRefusal++
			}
		}
		var sorted []uint64
		for P := range pts {
			sorted = append(sorted, P)
		}
		sort.Slice(sorted, func(a, b int) bool { return sorted[a] < sorted[b] })
		seen := map[uint64]struct{}{}
		for _, P := range sorted {
			nrPeek, errPeek := numReveals(sw, P, target)
			full := errPeek == nil && nrPeek+2 >= MaxReveals
			nr, ok := c38point(r, sw, P, target, full, "crossing")
			if !ok {
				continue
			}
			seen[nr] = struct{}{}
			switch nr {
			case MaxReveals:
				n640++
			case MaxReveals - 1:
				n639++
			}
		}
		r.Add("n:boundary_crossings", int64(len(bps)))
		r.Add("n:boundary_points", int64(len(sorted)))
		r.Add("n:boundary_points_r=MaxReveals", n640)
		r.Add("n:boundary_points_r=MaxReveals-1", n639)
		r.Add("n:boundary_refusal_steps", nRefusal)
		if _, ok := seen[MaxReveals]; ok {
			r.Add("n:boundary_cases_reaching_MaxReveals", 1)
			r.Class(fmt.Sprintf("boundary/t%d/reaches-MaxReveals", target))
		} else {
			r.Class(fmt.Sprintf("boundary/t%d/max-below-MaxReveals", target))
		}
		r.Add("n:boundary_distinct_counts_seen", int64(len(seen)))
		if i%271 == 7 {
			r.Sample(map[string]any{"boundary": true, "signedWeight": sw, "strengthTarget": target, "crossings": len(bps), "distinct_reveal_counts": len(seen), "points_with_640_reveals": n640})
		}
	})
	// the seeders' examples, as fixed regression points
	var regression []map[string]any
	for _, ex := range []struct {
		sw, ln, target uint64
		p              uint64
	}{{1<<40 - 1, 1798815, 256, 0}, {3000000000000000, 2317383, 256, 0}, {1451025484914, 0, 256, 1 << 40}} {
		ln := ex.ln
		if ex.p != 0 {
			ln, _ = LnIntApproximation(ex.p)
		}
		nr, ok := c38point(r, ex.sw, ln, ex.target, true, "seeded-example")
		regression = append(regression, map[string]any{"signedWeight": ex.sw, "lnProvenWeight": ln, "strengthTarget": ex.target, "numReveals": nr, "prover_ok": ok})
	}
	r.Set("regression_points", regression)

	// ---- coins
	coinW := c38coinWeights(W)
	const nSeeds, nCoins = 8, 256
	type cw struct {
		sw   uint64
		seed int
	}
	var cws []cw
	for _, sw := range coinW {
		for s := 0; s < nSeeds; s++ {
			cws = append(cws, cw{sw, s})
		}
	}
	doneCoins := r.ParallelFor(len(cws), func(i int) {
		sw, seed := cws[i].sw, cws[i].seed
		mk := func() coinGenerator {
			var data MessageHash
			binary.LittleEndian.PutUint64(data[:], uint64(seed)*0x9E3779B97F4A7C15+1)
			part := make([]byte, HashSize)
			sig := make([]byte, HashSize)
			part[0], sig[0] = byte(seed), byte(seed+100)
			return makeCoinGenerator(&coinChoiceSeed{partCommitment: part, lnProvenWeight: uint64(seed) << 10, sigCommitment: sig, signedWeight: sw, data: data})
		}
		g1, g2 := mk(), mk()
		distinct := map[uint64]struct{}{}
		for j := 0; j < nCoins; j++ {
			c := g1.getNextCoin()
			c2 := g2.getNextCoin()
			r.Eval()
			if c >= sw {
				r.Report("C38:coin-out-of-range", fmt.Sprintf("coin #%d = %d >= signedWeight %d (seed %d)", j, c, sw, seed), map[string]any{"engine": "enum", "signedWeight": sw, "seed": seed, "coin": j})
				return
			}
			if c != c2 {
				r.Report("C38:coin-nondeterministic", fmt.Sprintf("coin #%d differs between two generators over the same seed (%d vs %d), signedWeight %d", j, c, c2, sw), map[string]any{"engine": "enum", "signedWeight": sw, "seed": seed, "coin": j})
				return
			}
			distinct[c] = struct{}{}
		}
		if sw > 1 && len(distinct) < 2 {
			r.Report("C38:coin-constant", fmt.Sprintf("256 coins for signedWeight %d are all equal", sw), map[string]any{"signedWeight": sw, "seed": seed})
		}
		if seed == 0 {
			r.Class(fmt.Sprintf("coins/sw-bits%d", new(big.Int).SetUint64(sw).BitLen()/16))
		}
	})

	r.Set("weights", nW)
	r.Set("pairs", len(pairs))
	r.Set("coin_weights", len(coinW))
	r.Assume("LnIntApproximation's float64 rounding is part of the trusted base: lnProvenWeight is whatever it returns for p")
	r.Assume("the inequality is taken from the doc comment above verifyWeights (b=16, T=45427); oracle (4) checks its real-number meaning r*ln(sw/p) >= target*ln2 with float64")
	cov := ve.Coverage{Exhaustive: done == int64(len(pairs)) && doneCoins == int64(len(cws)) && doneB == int64(len(bcases)),
		Rule: fmt.Sprintf("every (signedWeight, provenWeight) in W x W, |W|=%d boundary weights (2^k, 2^k+-1, 3*2^k, 10^n, 2^64-1), x strengthTarget in {1,64,128,256,65536}: numReveals, then verifyWeights for the chosen count and for EVERY smaller count against an independent math/big evaluation of the documented inequality; inadmissible provenWeight >= signedWeight must be refused by both; boundary seeking: for every signed weight x target the step function lnProvenWeight -> numReveals is resolved by bisection over [0,2^22] and the same oracle runs just below/at every crossing (and above, with all smaller counts, for counts >= MaxReveals-2 and the refusal step); %d signed weights x %d seeds x first %d coins < signedWeight", nW, len(coinW), nSeeds, nCoins)}
	if r.Finish(cov) > 0 {
		t.Fatal("violations")
	}
}

// c38coinWeights picks 64 signed weights: the ones just above a power of two (rejection
// probability up to 1/2), powers of two, 3*2^k, small and decimal values.
func c38coinWeights(W []uint64) []uint64 {
	set := map[uint64]struct{}{}
	for k := uint(48); k <= 63; k++ {
		set[uint64(1)<<k+1] = struct{}{}
	}
	for k := uint(0); k <= 63; k += 7 {
		set[uint64(1)<<k] = struct{}{}
	}
	for k := uint(0); k <= 62; k += 6 {
		set[uint64(3)<<k] = struct{}{}
	}
	for _, v := range []uint64{1, 2, 3, 5, 7, 10, 100, 1000, 1e6, 1e9, 1e12, 1e15, 1e18, 1e19, math.MaxUint64, math.MaxUint64 - 1, 1<<63 - 1, 1<<63 + 3, 1<<62 - 1, 6, 9, 11, 13, 255, 257, 65535, 65537, 12, 1 << 32} {
		set[v] = struct{}{}
	}
	out := make([]uint64, 0, len(set))
	for v := range set {
		out = append(out, v)
	}
	sort.Slice(out, func(i, j int) bool { return out[i] < out[j] })
	// exactly 64: drop from the middle of the plain values if more
	for len(out) > 64 {
		out = append(out[:20], out[21:]...)
	}
	_ = W
	return out
}
