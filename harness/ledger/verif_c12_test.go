package ledger

// C12 — Reported account totals equal the sum over accounts.
//
// Engine E-SEQ over the LH driver (common_c08_driver_test.go: real Ledger, real
// BlockEvaluator, synchronous flushes, reloadLedger). Money/status alphabet:
//
//	payAC    A pays C 0.7 Algo (creates C; C crosses reward-unit boundaries as it accumulates)
//	closeC   C closes to A (account deleted)
//	onD      D keyreg online        offD  D keyreg offline
//	nonpartE E keyreg "mark non-participating" (irreversible)
//	payDA    D pays A 1 Algo (D is online or offline, whichever it is then)
//	fundPool A pays the rewards pool 50 Algos (the rewards rate, hence RewardsLevel steps,
//	         changes at the next rate refresh; the genesis pool only lasts two rounds)
//	flush1 / flushMax / reload   as in C08
//
// plus two protocol-driven rewrites that need no op: genesis accounts F and G are online
// with keys valid through rounds 2 and 4, are never touched, accumulate pending rewards
// that cross a reward-unit boundary, and are taken offline by the ExpiredParticipationAccounts
// list of blocks 3 and 5 (record rewritten without applying the pending rewards).
//
// Depth 4 with the whole alphabet and depth 5 without fundPool/flush1 (quick); 6 / 7
// (thorough, time-capped); MaxAcctLookback 0 and 2.
//
// Oracle, after EVERY step and for EVERY round r in [tracker DB round, latest]: Totals(r)
// must succeed and Online/Offline/NotParticipating .Money and .RewardUnits must equal the sums,
// over ALL addresses ever seen (genesis accounts incl. fee sink and rewards pool, every address
// touched by a block), of LookupAccount(r, a): Money = MicroAlgos with pending rewards
// applied (what AccountTotals.AddAccount accumulates via AccountData.Money), RewardUnits =
// whole reward units of the balance WITHOUT pending rewards (third result of LookupAccount),
// class = the account's Status; RewardsLevel must equal the RewardsLevel of block r's header.
// Rounds above latest must be refused. (Constancy of the grand total is C18, not asked here.)
//
// Not covered: concurrent Totals-vs-commit interleavings; rewards overflow paths; absentee
// suspension / heartbeat rewrites (payouts are off in the private consensus version); totals
// installed by a catchpoint restore (catchupaccessor finishBalances - that is C16's domain).
//
// Mutants (bin/mut ... --only), outcomes:
//  M1 totals.go DelAccount: reward units not subtracted for Online accounts       DETECTED (depth 2)
//  M2 acctupdates.go newBlockImpl: previous round's totals appended               DETECTED (depth 0)
//  M3 acctupdates.go prepareCommit: roundTotals[offset-1] persisted (visible only
//     after a flush AND a reload)                                                DETECTED (depth 3)
//  M4 totals.go ApplyRewards: Offline class not credited                          DETECTED, but by
//     the evaluator's own "sum of money changed" assertion (block generation fails)
//  M5 totals.go statusField: Online accounts booked under Offline (sum-preserving,
//     passes the evaluator's assertion)                                          DETECTED (depth 1)

import (
	"fmt"
	"sync/atomic"
	"testing"

	"github.com/algorand/go-algorand/crypto"
	"github.com/algorand/go-algorand/crypto/merklesignature"
	"github.com/algorand/go-algorand/data/basics"
	"github.com/algorand/go-algorand/data/txntest"
	"github.com/algorand/go-algorand/ledger/ledgercore"
	"github.com/algorand/go-algorand/protocol"
	ve "github.com/algorand/go-algorand/verifeng"
)

const (
	c12OpPayAC = iota
	c12OpCloseC
	c12OpOnD
	c12OpOffD
	c12OpNonpartE
	c12OpPayDA
	c12OpFundPool
	c12OpFlush1
	c12OpFlushMax
	c12OpReload
	c12NumOps
)

var c12OpNames = []string{"payAC", "closeC", "onD", "offD", "nonpartE", "payDA", "fundPool", "flush1", "flushMax", "reload"}

type c12Variant struct {
	cfg   c08Cfg
	alpha string
	mask  uint
}

type c12Sys struct {
	w *c08World
	v c12Variant
	// shadow model
	shLatest, shDB         basics.Round
	shC, shDOn, shENonpart bool
	ops                    []int
	// materialised
	done int
	h    *c08LH
	bad  error
}

func (s *c12Sys) shMaxFlush() basics.Round {
	return s.shLatest.SubSaturate(basics.Round(s.v.cfg.Lookback))
}

func (s *c12Sys) apply(op int) (bool, error) {
	if s.v.mask&(1<<uint(op)) == 0 {
		return false, nil
	}
	switch op {
	case c12OpPayAC:
		s.shC = true
		s.shLatest++
	case c12OpCloseC:
		if !s.shC {
			return false, nil
		}
		s.shC = false
		s.shLatest++
	case c12OpOnD:
		if s.shDOn {
			return false, nil
		}
		s.shDOn = true
		s.shLatest++
	case c12OpOffD:
		if !s.shDOn {
			return false, nil
		}
		s.shDOn = false
		s.shLatest++
	case c12OpNonpartE:
		if s.shENonpart {
			return false, nil
		}
		s.shENonpart = true
		s.shLatest++
	case c12OpPayDA, c12OpFundPool:
		s.shLatest++
	case c12OpFlush1:
		if s.shDB+1 >= s.shMaxFlush() {
			return false, nil
		}
		s.shDB++
	case c12OpFlushMax:
		if s.shMaxFlush() <= s.shDB {
			return false, nil
		}
		s.shDB = s.shMaxFlush()
	case c12OpReload:
		if s.shMaxFlush() > s.shDB {
			s.shDB = s.shMaxFlush()
		}
	}
	s.ops = append(s.ops, op)
	return true, nil
}

func (s *c12Sys) txns(op int) []*txntest.Txn {
	w := s.w
	rnd := s.h.NextRound()
	switch op {
	case c12OpPayAC:
		return []*txntest.Txn{w.txPay(w.A, w.C, 700_000)}
	case c12OpCloseC:
		return []*txntest.Txn{w.txClose(w.C, w.A)}
	case c12OpOnD:
		return []*txntest.Txn{{Type: protocol.KeyRegistrationTx, Sender: w.D,
			VotePK: crypto.OneTimeSignatureVerifier{1}, SelectionPK: crypto.VRFVerifier{2}, StateProofPK: merklesignature.Commitment{3},
			VoteFirst: rnd, VoteLast: rnd + 1000, VoteKeyDilution: 10}}
	case c12OpOffD:
		return []*txntest.Txn{{Type: protocol.KeyRegistrationTx, Sender: w.D}}
	case c12OpNonpartE:
		return []*txntest.Txn{{Type: protocol.KeyRegistrationTx, Sender: w.E, Nonparticipation: true}}
	case c12OpPayDA:
		return []*txntest.Txn{w.txPay(w.D, w.A, 1_000_000)}
	case c12OpFundPool:
		return []*txntest.Txn{w.txPay(w.A, w.pool, 50_000_000)}
	}
	return nil
}

func (s *c12Sys) exec(op int) error {
	var en bool
	var err error
	switch op {
	case c12OpFlush1:
		en, err = s.h.Flush(s.h.dbRound + 1)
	case c12OpFlushMax:
		en, err = s.h.Flush(s.h.MaxFlush())
	case c12OpReload:
		en, err = true, s.h.Reload()
	default:
		en, err = s.h.AddBlock(s.txns(op)...)
		if err == nil && en {
			c12Expiries.Add(int64(len(s.h.LastBlock.ExpiredParticipationAccounts)))
		}
	}
	if err == nil && !en {
		err = ve.Violationf("C12:harness", "harness: op %s enabled in the shadow model but refused by the ledger/evaluator", c12OpNames[op])
	}
	if err != nil {
		return err
	}
	return c12Check(s.h)
}

func (s *c12Sys) materialize() error {
	if s.bad != nil {
		return s.bad
	}
	if s.h == nil {
		h, err := c08Open(s.w, s.v.cfg)
		if err != nil {
			s.bad = ve.Violationf("C12:harness", "harness: OpenLedger: %v", err)
			return s.bad
		}
		s.h = h
		if s.bad = c12Check(h); s.bad != nil {
			return s.bad
		}
	}
	for s.done < len(s.ops) {
		if s.bad = s.exec(s.ops[s.done]); s.bad != nil {
			return s.bad
		}
		s.done++
	}
	// non-vacuity of the expiry path: from round 3 on F must have been taken offline by the
	// protocol while it still carried pending rewards
	if s.h.Latest() >= 3 {
		f := s.h.ref[3].acct[c08Addr("F")]
		if f.Status != basics.Offline || f.RewardsBase >= s.h.ref[3].rewardsLevel {
			s.bad = ve.Violationf("C12:harness", "harness: account F was not expired with pending rewards in round 3 (status %v, rewards base %d, level %d)", f.Status, f.RewardsBase, s.h.ref[3].rewardsLevel)
			return s.bad
		}
	}
	cur := s.h.Cur()
	_, cOK := cur.acct[s.w.C]
	if s.h.Latest() != s.shLatest || s.h.dbRound != s.shDB || cOK != s.shC ||
		(cur.acct[s.w.D].Status == basics.Online) != s.shDOn || (cur.acct[s.w.E].Status == basics.NotParticipating) != s.shENonpart {
		s.bad = ve.Violationf("C12:harness", "harness: shadow model diverged from the ledger (latest %d/%d db %d/%d)", s.shLatest, s.h.Latest(), s.shDB, s.h.dbRound)
	}
	return s.bad
}

func (s *c12Sys) key() string {
	if err := s.materialize(); err != nil {
		return "bad:" + err.Error()
	}
	return s.h.Key()
}

// c12Check is the oracle (see header).
func c12Check(h *c08LH) error {
	l := h.l
	latest := h.Latest()
	db := l.LatestTrackerCommitted()
	if db != h.dbRound || l.Latest() != latest {
		return ve.Violationf("C12:rounds", "ledger at latest %d / tracker DB %d, expected %d / %d", l.Latest(), db, latest, h.dbRound)
	}
	ru := h.w.params.RewardUnit
	for r := basics.Round(0); r <= latest+1; r++ {
		served := r >= db && r <= latest
		tot, err := l.Totals(r)
		h.queries++
		if err != nil {
			if served {
				return ve.Violationf("C12:served-round-error", "Totals(%d) failed at a served round (db %d, latest %d): %v", r, db, latest, err)
			}
			continue
		}
		if r > latest {
			return ve.Violationf("C12:future-round-answered", "Totals(%d) answered although latest is %d", r, latest)
		}
		if !served {
			continue // cannot be compared: account lookups are refused below the DB round
		}
		var sum ledgercore.AccountTotals
		var ot basics.OverflowTracker
		for _, a := range h.addrs {
			data, _, without, err := l.LookupAccount(r, a)
			h.queries++
			if err != nil {
				return ve.Violationf("C12:served-round-error", "LookupAccount(%d, %x) failed at a served round (db %d, latest %d): %v", r, a[:4], db, latest, err)
			}
			var cls *ledgercore.AlgoCount
			switch data.Status {
			case basics.Online:
				cls = &sum.Online
			case basics.Offline:
				cls = &sum.Offline
			case basics.NotParticipating:
				cls = &sum.NotParticipating
			default:
				return ve.Violationf("C12:status", "LookupAccount(%d, %x) has unknown status %v", r, a[:4], data.Status)
			}
			cls.Money = ot.AddA(cls.Money, data.MicroAlgos)
			cls.RewardUnits = ot.Add(cls.RewardUnits, without.RewardUnits(ru))
		}
		hdr, err := l.BlockHdr(r)
		if err != nil {
			return ve.Violationf("C12:harness", "harness: BlockHdr(%d): %v", r, err)
		}
		sum.RewardsLevel = hdr.RewardsLevel
		if ot.Overflowed {
			return ve.Violationf("C12:harness", "harness: overflow while summing")
		}
		if tot != sum {
			return ve.Violationf("C12:totals-mismatch", "Totals(%d) (db %d, latest %d) = %+v, sum over the %d accounts = %+v", r, db, latest, tot, len(h.addrs), sum)
		}
	}
	lr, lt, err := l.LatestTotals()
	if err != nil || lr != latest {
		return ve.Violationf("C12:latest-totals", "LatestTotals() = round %d, err %v; latest is %d", lr, err, latest)
	}
	if t2, err := l.Totals(latest); err != nil || t2 != lt {
		return ve.Violationf("C12:latest-totals", "LatestTotals() = %+v differs from Totals(%d) = %+v (err %v)", lt, latest, t2, err)
	}
	return nil
}

// c12Online is a genesis account that is online with participation keys valid through
// round last only and that no transaction of the alphabet ever touches: while the rewards
// level rises it carries pending rewards (balance x.999 Algos: the pending rewards cross a
// whole reward unit), and the block after `last` lists it in ExpiredParticipationAccounts,
// which rewrites the record (Online -> Offline) WITHOUT folding the pending rewards in.
func c12Online(microAlgos uint64, last basics.Round, tag byte) basics.AccountData {
	d := basics.AccountData{MicroAlgos: basics.MicroAlgos{Raw: microAlgos}, Status: basics.Online}
	d.VoteID[0], d.SelectionID[0], d.StateProofID[0] = tag, tag, tag
	d.VoteFirstValid, d.VoteLastValid, d.VoteKeyDilution = 0, last, 10
	return d
}

// c12Expiries counts entries of ExpiredParticipationAccounts over all executed blocks (evidence).
var c12Expiries atomic.Int64

func c12World() (*c08World, error) {
	return c08MakeWorld(map[basics.Address]basics.AccountData{
		c08Addr("F"):    c12Online(1_500_999_000, 2, 7),
		c08Addr("G"):    c12Online(2_500_999_500, 4, 8),
		c08Addr("D"):    {MicroAlgos: basics.MicroAlgos{Raw: 2_000_300_000}, Status: basics.Offline},
		c08Addr("E"):    {MicroAlgos: basics.MicroAlgos{Raw: 3_000_500_000}, Status: basics.Offline},
		c08Addr("pool"): {MicroAlgos: basics.MicroAlgos{Raw: 12_600_000}, Status: basics.NotParticipating},
	})
}

func TestVerif_C12(t *testing.T) {
	r := ve.NewRun("C12", "model_checking")
	w, err := c12World()
	if err != nil {
		t.Fatalf("harness: %v", err)
	}
	lb0 := c08Cfg{Name: "lru-lb0", Lookback: 0, LRU: c08LRUSmall}
	lb2 := c08Cfg{Name: "lru-lb2", Lookback: 2, LRU: c08LRUSmall}
	full := uint(1<<c12NumOps - 1)
	core := full &^ (1<<c12OpFundPool | 1<<c12OpFlush1)
	type expl struct {
		cfg   c08Cfg
		alpha string
		mask  uint
		depth int
	}
	var plan []expl
	if !ve.Thorough() {
		plan = []expl{{lb0, "full", full, 4}, {lb2, "full", full, 4}, {lb0, "core", core, 5}, {lb2, "core", core, 5}}
	} else {
		plan = []expl{{lb0, "full", full, 5}, {lb2, "full", full, 5}, {lb0, "core", core, 6}, {lb2, "core", core, 6}, {lb0, "full", full, 6}, {lb2, "full", full, 6}, {lb0, "core", core, 7}}
	}
	var cov ve.Coverage
	cov.Exhaustive = true
	maxDepth := 0
	var skipped []string
	var queries atomic.Int64
	for _, e := range plan {
		v := c12Variant{cfg: e.cfg, alpha: e.alpha, mask: e.mask}
		name := fmt.Sprintf("totals/%s/%s", e.cfg.Name, e.alpha)
		if r.WasCapped() || r.OutOfTime() {
			skipped = append(skipped, fmt.Sprintf("%s(depth %d)", name, e.depth))
			continue
		}
		q := &ve.Seq[*c12Sys]{
			Name:   name,
			NumOps: c12NumOps,
			OpName: func(op int) string { return c12OpNames[op] },
			New:    func() *c12Sys { return &c12Sys{w: w, v: v} },
			Close: func(s *c12Sys) {
				if s.h != nil {
					queries.Add(s.h.queries)
					s.h.Close()
				}
			},
			Apply:     func(s *c12Sys, op int) (bool, error) { return s.apply(op) },
			Invariant: func(s *c12Sys) error { return s.materialize() },
			Key:       func(s *c12Sys) string { return s.key() },
			Observe: func(s *c12Sys) string {
				return fmt.Sprintf("l%d-db%d-C%v-D%v-E%v", s.shLatest, s.shDB, s.shC, s.shDOn, s.shENonpart)
			},
			MaxDepth: e.depth,
		}
		res := q.Explore(r)
		cov.AddSeq(res)
		if !res.Exhaustive {
			cov.Exhaustive = false
		}
		if res.DepthCompleted > maxDepth {
			maxDepth = res.DepthCompleted
		}
		if r.Violations() > 0 {
			break
		}
	}
	if len(skipped) > 0 {
		r.Note("time budget exhausted; explorations not run: %v", skipped)
	}
	r.Set("lookups_compared", queries.Load())
	r.Set("protocol_expiries_executed", c12Expiries.Load())
	cov.Rule = fmt.Sprintf("BFS over all sequences (depth <= %d) of the money/status block alphabet {pay-to-small-account, close, keyreg online, keyreg offline, keyreg non-participating, pay-from-(on|off)line-account, fund-rewards-pool} and flush-one-round / flush-max / reloadLedger, MaxAcctLookback 0 and 2; after every step, for every round in [tracker DB round, latest], Totals(round) is compared field by field with the sums of LookupAccount(round, a) over all addresses ever seen; evaluations = transitions executed; a distinct class = a distinct implementation state (block history, flush boundaries, in-memory delta/cache bookkeeping)", maxDepth)
	r.Assume("LookupAccount is taken as the per-account truth (its agreement with the block history is C08)")
	r.Assume("tracker flushes are executed synchronously (trackerRegistry.commitRound on the calling goroutine); concurrent interleavings are not covered")
	r.Assume("private consensus version verif-ldg-c08: vFuture, RewardsRateRefreshInterval 2, payouts off; rewards pool sized so that RewardsLevel moves by a few units per round and then stalls until the pool is funded")
	if r.Finish(cov) > 0 {
		t.Fatal("violations")
	}
}
