package agreement

// C02 part (i) - Honest nodes never equivocate, even across crashes (state-machine level).
// (header completed below)

import (
	"fmt"
	"testing"

	ve "github.com/algorand/go-algorand/verifeng"
)

func c02Configs(scale int) []*eagrBFS {
	cap := []int64{400000, 4000000}[scale]
	mk := func(name string, proposers []bool, budget eagrDevs, total int) *eagrBFS {
		b := eagrHonest3(name, proposers, nil, 1, 1).lock(budget, total, cap)
		b.cfg.atomicLoop = false // persist / vote release are separate steps: a crash can fall between them
		b.cfg.trackVotes = true
		return b
	}
	return []*eagrBFS{
		// crash-focused: up to 2 crash-restarts at every position, then at most 1 further deviation
		mk("crash2-3prop", nil, eagrBudget(1, 1, 0, 2, 0, 0, 0), 2+scale),
		mk("crash2-1prop", []bool{true, false, false}, eagrBudget(1, 1, 0, 2, 0, 0, 0), 3),
	}
}

func TestVerif_C02_statemachine(t *testing.T) {
	eagrRunCheck(t, &eagrCheck{
		id: "C02", level: "fault_enumeration",
		configs: c02Configs(ve.Pick(0, 1)),
		oracle: func(r *ve.Run, b *eagrBFS, pre *eagrSys, e eagrEv, post *eagrSys, out *eagrOut, path func() []eagrEv) {
			if out.panicMsg != "" {
				r.Report("C02:panic", fmt.Sprintf("[%s] after %v: %s", b.name, e, out.panicMsg), eagrReplayOf(b, path))
				return
			}
			for _, m := range out.equivoc {
				r.Report("C02:equivocation-after-restart", fmt.Sprintf("[%s] after %v: %s", b.name, e, m), eagrReplayOf(b, path))
			}
			for _, uv := range out.released {
				r.Class(fmt.Sprintf("%s/released/p%d/s%d", b.name, uv.R.Period, uv.R.Step))
			}
		},
		rule: "under construction.",
	})
}
