package stateproof

// Plain unit test (no explorer): reach of the C37 finding (merklearray does not bind
// Proof.TreeDepth) into state proofs, reported by `vcheck C39` under key C39:depth-alias.
// A valid state proof is tampered with: every reveal position is doubled (Reveals map keys
// and PositionsToReveal) and SigProofs.TreeDepth / PartProofs.TreeDepth are raised by one.
// The verifier accepts it although no participant / signature slot exists at those positions.
// Uses only upstream test helpers of this package (generateProofForTesting).
// Fails on the unchanged tree; passes with candidate-fix.patch.

import (
	"testing"

	"github.com/stretchr/testify/require"
)

func TestReproC39DepthAlias(t *testing.T) {
	a := require.New(t)
	p := generateProofForTesting(a, false)
	verif, err := MkVerifier(p.partCommitment, p.provenWeight, stateProofStrengthTargetForTests)
	a.NoError(err)
	a.NoError(verif.Verify(stateProofIntervalForTests, p.data, &p.sp), "honest proof must verify")

	tampered := p.sp
	tampered.Reveals = make(map[uint64]Reveal, len(p.sp.Reveals))
	for pos, r := range p.sp.Reveals {
		tampered.Reveals[2*pos] = r
	}
	tampered.PositionsToReveal = make([]uint64, len(p.sp.PositionsToReveal))
	for i, pos := range p.sp.PositionsToReveal {
		tampered.PositionsToReveal[i] = 2 * pos
	}
	tampered.SigProofs.TreeDepth++
	tampered.PartProofs.TreeDepth++

	err = verif.Verify(stateProofIntervalForTests, p.data, &tampered)
	if err == nil {
		t.Fatalf("state proof with all reveal positions doubled (e.g. %v -> %v) and TreeDepth %d -> %d was ACCEPTED",
			p.sp.PositionsToReveal[:3], tampered.PositionsToReveal[:3], p.sp.PartProofs.TreeDepth, tampered.PartProofs.TreeDepth)
	}
}
