package agreement

// E-AGR, part 4: events, replay, and the full-reachability explorer (BFS with canonical state
// hashing). The deviation-bounded explorer is in common_eagr_dfs_test.go.

import (
	"bytes"
	"encoding/json"
	"fmt"
	"os"
	"reflect"
	"sort"
	"strconv"
	"strings"
	"sync"
	"sync/atomic"
	"testing"

	"github.com/algorand/go-algorand/data/basics"
	"github.com/algorand/go-algorand/protocol"
	ve "github.com/algorand/go-algorand/verifeng"
)

// eagrEv is one schedulable event; a list of them is a replayable execution.
type eagrEv struct {
	K   string `json:"k"`             // deliver | dup | drop | hold | reorder | timeout | fast | tick | loop | verify | crash | catchup | byz
	N   int    `json:"n"`             // node
	M   string `json:"m,omitempty"`   // message id (deliver/dup/drop/hold)
	T   int64  `json:"t,omitempty"`   // virtual time of a timeout (DFS)
	Idx int    `json:"idx,omitempty"` // verify: index into the pending verifications
	// byz: vote of adversary account Acct for (R,P,S,V) delivered to node N
	Acct int    `json:"acct,omitempty"`
	R    uint64 `json:"r,omitempty"`
	P    uint64 `json:"p,omitempty"`
	S    uint64 `json:"s,omitempty"`
	V    string `json:"v,omitempty"` // "bot" or hex prefix of the block digest
	D    string `json:"d,omitempty"` // human readable description (not used by replay)
}

func (e eagrEv) String() string {
	switch e.K {
	case "deliver", "dup", "drop", "hold", "reorder":
		return fmt.Sprintf("%s(%s->n%d %s)", e.K, e.M, e.N, e.D)
	case "slow":
		return fmt.Sprintf("slow-payload(%s %s held for %d timeouts everywhere)", e.M, e.D, e.Idx)
	case "offline":
		return fmt.Sprintf("offline(n%d for %d delivery sub-phases)", e.N, e.Idx)
	case "down":
		return fmt.Sprintf("down(n%d stops for good)", e.N)
	case "fate":
		switch e.V {
		case "late":
			return fmt.Sprintf("votes(r%d p%d s%d) arrive %d timeouts late everywhere", e.R, e.P, e.S, e.Idx)
		case "split":
			return fmt.Sprintf("votes(r%d p%d s%d) reach n%d now, nodes %05b two timeouts later, the rest never", e.R, e.P, e.S, e.N, e.Idx)
		}
		return fmt.Sprintf("votes(r%d p%d s%d) reach everybody now except n%d (late=%d)", e.R, e.P, e.S, e.N, e.Idx)
	case "cut":
		if e.V == "only" {
			return fmt.Sprintf("cut(votes of period %d step %d reach only n%d)", e.P, e.S, e.N)
		}
		return fmt.Sprintf("cut(votes of period %d step %d do not cross {n%d}|rest)", e.P, e.S, e.N)
	case "byz":
		return fmt.Sprintf("byz(a%d r%d p%d s%d %s ->n%d)", e.Acct, e.R, e.P, e.S, e.V, e.N)
	case "timeout", "fast":
		return fmt.Sprintf("%s(n%d @%dms)", e.K, e.N, e.T/1e6)
	case "tick":
		return fmt.Sprintf("tick(nodes %03b)", e.Idx)
	case "vtick":
		return "vtick"
	}
	return fmt.Sprintf("%s(n%d)", e.K, e.N)
}

func (s *eagrSys) findFlight(dst int, id string) int {
	best := -1
	for i, f := range s.flight {
		if f.dst == dst && f.m.ID() == id && !f.parked {
			if best < 0 || f.seq < s.flight[best].seq {
				best = i
			}
		}
	}
	return best
}

func (s *eagrSys) removeFlight(i int) eagrFlight {
	f := s.flight[i]
	s.flight = append(append([]eagrFlight(nil), s.flight[:i]...), s.flight[i+1:]...)
	return f
}

func (s *eagrSys) purge() {
	j := 0
	for _, f := range s.flight {
		if !s.nodes[f.dst].passive {
			s.flight[j] = f
			j++
		}
	}
	s.flight = s.flight[:j]
}

// valueByName finds a proposal value seen on the network by the hex prefix of its digest.
func (s *eagrSys) valueByName(v string) (proposalValue, bool) {
	if v == "bot" {
		return bottom, true
	}
	for pv := range s.values {
		if eagrPV(pv) == v {
			return pv, true
		}
	}
	return proposalValue{}, false
}

// apply performs one event on s (which must be privately owned: nodes are cloned on write).
func (s *eagrSys) apply(e eagrEv, out *eagrOut) error {
	if e.N < 0 || e.N >= len(s.nodes) {
		return fmt.Errorf("bad node %d", e.N)
	}
	if s.cfg.virtualTime {
		before := s.devs.total()
		defer func() {
			if s.devs.total() != before {
				for _, n := range s.nodes {
					if !n.passive && int(n.p.Period) > s.syncPeriod {
						s.syncPeriod = int(n.p.Period)
					}
				}
			}
		}()
	}
	switch e.K {
	case "slow":
		fs := append([]eagrFlight(nil), s.flight...)
		n := 0
		for i := range fs {
			if !fs[i].parked && fs[i].m.ID() == e.M && fs[i].m.tag == protocol.ProposalPayloadTag {
				fs[i].parked, fs[i].ticks = true, int8(e.Idx)
				n++
			}
		}
		if n == 0 {
			return fmt.Errorf("%v: no such payload in flight", e)
		}
		s.flight = fs
		s.devs[eagrDevSlow]++
		s.subStart = false
		s.fixBarrier()
		return nil
	case "fate":
		f := eagrFate{round: basics.Round(e.R), period: period(e.P), step: step(e.S)}
		kind := eagrDevFateSplit
		switch e.V {
		case "late": // everybody late by Idx timeouts
			kind = eagrDevFateSoftLate
			for j := range s.nodes {
				f.dst[j] = int8(e.Idx)
			}
		case "split": // node N now; nodes in mask Idx two timeouts later; the rest never
			for j := range s.nodes {
				switch {
				case j == e.N:
				case e.Idx&(1<<uint(j)) != 0:
					f.dst[j] = 2
				default:
					f.dst[j] = -1
				}
			}
		case "miss": // everybody now except node N: two timeouts later (Idx=1) or never (Idx=0)
			kind = eagrDevFateMiss
			f.dst[e.N] = -1
			if e.Idx == 1 {
				f.dst[e.N] = 2
			}
		}
		s.fates = append(append([]eagrFate(nil), s.fates...), f)
		s.devs[kind]++
		s.subStart = false
		// votes of the group already in flight follow the rule too
		var fs []eagrFlight
		for _, x := range s.flight {
			if f.matches(x.m) && !x.parked {
				switch k := f.dst[x.dst]; {
				case k < 0:
					continue
				case k > 0:
					x.parked, x.ticks = true, k
				}
			}
			fs = append(fs, x)
		}
		s.flight = fs
		s.fixBarrier()
		return nil
	case "down":
		n := s.own(e.N)
		n.down, n.passive = true, true
		n.loop, n.ver = nil, nil
		s.devs[eagrDevDown]++
		s.subStart = false
		s.purge()
		s.fixBarrier()
		return nil
	case "offline":
		s.offNode, s.offLeft = e.N, e.Idx
		s.devs[eagrDevOff]++
		s.subStart = false
		return nil
	case "cut":
		s.cut = eagrCut{active: true, only: e.V == "only", node: e.N, period: period(e.P), step: step(e.S)}
		s.devs[eagrDevCut]++
		s.subStart = false
		return nil
	case "deliver", "dup", "drop", "hold", "reorder":
		i := s.findFlight(e.N, e.M)
		if i < 0 {
			return fmt.Errorf("%v: no such message in flight", e)
		}
		f := s.flight[i]
		s.subStart = false
		switch e.K {
		case "drop":
			s.removeFlight(i)
			s.devs[eagrDevDrop]++
			s.fixBarrier()
			return nil
		case "hold": // held back until after the next tick (delayed past a timeout)
			s.flight = append([]eagrFlight(nil), s.flight...)
			s.flight[i].parked, s.flight[i].ticks = true, 1
			s.devs[eagrDevHold]++
			s.fixBarrier()
			return nil
		case "reorder": // deferred to the next delivery sub-phase
			s.removeFlight(i)
			s.seq++
			f.seq = s.seq
			s.flight = append(s.flight, f)
			s.devs[eagrDevReorder]++
			s.fixBarrier()
			return nil
		case "deliver":
			s.removeFlight(i)
			if s.cut.blocks(f.m, f.src, f.dst) || (s.offLeft > 0 && (f.dst == s.offNode || f.src == s.offNode)) {
				s.fixBarrier()
				return nil // lost at the cut / the node is cut off
			}
		case "dup":
			s.devs[eagrDevDup]++
		}
		if s.nodes[e.N].passive {
			return nil
		}
		s.own(e.N).deliver(s, f.m, f.src, out)
	case "timeout", "fast":
		if e.T > s.now {
			s.now = e.T
		}
		if e.K == "fast" && s.cfg.ordered {
			s.devs[eagrDevFast]++
		}
		s.own(e.N).timeout(s, e.K == "fast", out)
	case "vtick": // virtual-time tick: advance to the earliest deadline and fire every timer due then
		var T int64 = -1
		for _, n := range s.nodes {
			if n.passive {
				continue
			}
			r, f := n.timers()
			for _, x := range []int64{r, f} {
				if T < 0 || x < T {
					T = x
				}
			}
		}
		if T < 0 {
			return fmt.Errorf("vtick: no active node")
		}
		if T > s.now {
			s.now = T
		}
		regular := false
		for _, n := range s.nodes {
			if r, _ := n.timers(); !n.passive && r <= s.now {
				regular = true
			}
		}
		if regular {
			s.unpark() // held messages sit out regular timeouts only (fast-recovery timers do not count)
			for j, n := range s.nodes {
				if n.passive {
					continue
				}
				for _, o := range s.nodes {
					if _, ok := o.led.entries[n.led.next]; ok && o != n && n.behind < 100 {
						s.own(j).behind++
						break
					}
				}
			}
		}
		for j := range s.nodes {
			if s.nodes[j].passive {
				continue
			}
			if r, _ := s.nodes[j].timers(); r <= s.now {
				s.own(j).timeout(s, false, out)
			}
			if s.nodes[j].passive {
				continue
			}
			if _, f := s.nodes[j].timers(); f <= s.now {
				s.own(j).timeout(s, true, out)
			}
		}
	case "tick": // lock-step explorer: the nodes in mask Idx take their timeout, in node order
		if e.S != 0 {
			s.devs[eagrDevSkew]++
		}
		s.unpark() // held messages arrive right after the timeouts, before anything the timeouts send
		for j := range s.nodes {
			if e.Idx&(1<<uint(j)) != 0 && !s.nodes[j].passive {
				s.own(j).timeout(s, false, out)
			}
		}
	case "loop":
		n := s.own(e.N)
		if len(n.loop) == 0 {
			return fmt.Errorf("%v: loopback queue empty", e)
		}
		n.loopStep(s, out)
		n.settle(s, out)
	case "verify":
		n := s.own(e.N)
		if e.Idx >= len(n.ver) {
			return fmt.Errorf("%v: no such pending verification", e)
		}
		n.verStep(s, e.Idx, out)
		n.settle(s, out)
	case "crash":
		s.devs[eagrDevCrash]++
		s.own(e.N).restart(s, out)
	case "crashlose": // crash-restart in which the node's ledger lost its last block
		s.devs[eagrDevCrashLose]++
		n := s.own(e.N)
		n.rollbackLedger()
		n.restart(s, out)
	case "relearn": // catch-up re-delivers the block the ledger lost
		n := s.own(e.N)
		if n.lostBlock == nil {
			return fmt.Errorf("%v: nothing to re-deliver", e)
		}
		n.catchup(s, n.lostBlock, out)
	case "catchup":
		n := s.nodes[e.N]
		var ent *eagrEntry
		for _, o := range s.nodes {
			if x, ok := o.led.entries[n.led.next]; ok && o != n {
				ent = x
				break
			}
		}
		if ent == nil {
			return fmt.Errorf("%v: nobody committed round %d", e, n.led.next)
		}
		nn := s.own(e.N)
		nn.behind = 0
		nn.catchup(s, ent, out)
	case "byz":
		pv, ok := s.valueByName(e.V)
		if !ok {
			return fmt.Errorf("%v: unknown value", e)
		}
		env := s.cfg.env
		rv := rawVote{Sender: env.addrs[e.Acct], Round: basics.Round(e.R), Period: period(e.P), Step: step(e.S), Proposal: pv}
		uv, err := env.makeVote(e.Acct, rv, s.nodes[e.N].led)
		if err != nil {
			return fmt.Errorf("%v: %v", e, err)
		}
		s.stats.byzVotes++
		s.devs[eagrDevByz]++
		m := env.intern(&eagrMsg{tag: protocol.AgreementVoteTag, vote: uv})
		if s.sent != nil {
			s.sent[m.ID()+string(rune('0'+e.N))] = true
		}
		n := s.own(e.N)
		n.deliver(s, m, -1, out)
		// non-vacuity: did this vote turn the adversary account into a recorded equivocator?
		if rr := n.rr.Children[rv.Round]; rr != nil {
			if pr := rr.Children[rv.Period]; pr != nil {
				if sr := pr.Children[rv.Step]; sr != nil {
					if _, ok := sr.VoteTracker.Equivocators[rv.Sender]; ok {
						s.stats.equivocations++
					}
				}
			}
		}
	default:
		return fmt.Errorf("unknown event kind %q", e.K)
	}
	s.purge()
	s.fixBarrier()
	return nil
}

// unpark releases the messages held past the tick (called before the timeouts fire, so that their
// sequence numbers precede everything the timeouts send; nothing is delivered in between).
func (s *eagrSys) unpark() {
	any := false
	for _, f := range s.flight {
		if f.parked {
			any = true
		}
	}
	if !any {
		return
	}
	fs := append([]eagrFlight(nil), s.flight...)
	sort.SliceStable(fs, func(i, j int) bool { return fs[i].seq < fs[j].seq })
	for i := range fs {
		if fs[i].parked {
			if fs[i].ticks > 1 {
				fs[i].ticks--
				continue
			}
			fs[i].parked, fs[i].ticks = false, 0
			s.seq++
			fs[i].seq = s.seq
		}
	}
	s.flight = fs
}

// fixBarrier starts a new delivery sub-phase when no in-flight message of the current one is left.
func (s *eagrSys) fixBarrier() {
	if !s.cfg.ordered {
		return
	}
	for _, f := range s.flight {
		if f.seq <= s.barrier && !f.parked {
			return
		}
	}
	s.barrier = s.seq
	s.subStart = true
	if s.offLeft > 0 {
		s.offLeft--
	}
}

// eagrReplay re-executes an event list on a fresh system of the given configuration.
func eagrReplay(cfg *eagrCfg, evs []eagrEv, each func(i int, e eagrEv, s *eagrSys, out *eagrOut) bool) (*eagrSys, error) {
	s := eagrNewSys(cfg)
	out := &eagrOut{trace: true}
	s.boot(out)
	if each != nil && !each(-1, eagrEv{K: "boot"}, s, out) {
		return s, nil
	}
	s.fixBarrier()
	for i, e := range evs {
		out = &eagrOut{trace: true}
		if err := s.apply(e, out); err != nil {
			return s, fmt.Errorf("replay step %d: %v", i, err)
		}
		if each != nil && !each(i, e, s, out) {
			break
		}
	}
	return s, nil
}

// ---------------------------------------------------------------------------------------------
// BFS

type eagrPath struct {
	parent *eagrPath
	ev     eagrEv
	depth  int
}

func (p *eagrPath) list() []eagrEv {
	var evs []eagrEv
	for q := p; q != nil && q.parent != nil; q = q.parent {
		evs = append(evs, q.ev)
	}
	for i, j := 0, len(evs)-1; i < j; i, j = i+1, j-1 {
		evs[i], evs[j] = evs[j], evs[i]
	}
	return evs
}

// eagrBFS configures one full-reachability exploration.
type eagrBFS struct {
	name       string
	cfg        *eagrCfg
	maxStep    step  // a node takes timeouts while Step < maxStep, or Step == maxStep and napping
	fast       bool  // fast-recovery timeouts are schedulable
	maxCrashes int   // total crash-restarts per execution
	catchup    bool  // ledger catch-up events are schedulable
	maxStates  int64 // cap (reported, exhaustive:false)
	maxDepth   int   // cap on BFS depth (0: none)
	switchAt   int   // frontier size at which the search continues depth-first (default 256)
	lastVisited *eagrVisited // visited set of the last run (debugging aid)
	// lock-step schedule family (cfg.ordered): the default schedule is the synchronous one - a
	// delivery sub-phase hands over, in send order, every message that was in flight when the
	// sub-phase began (messages sent meanwhile form the next sub-phase); when nothing is in flight
	// every active node takes its timeout (a "tick"). A deviation is: a message lost (drop),
	// deferred to the next sub-phase (hold) or delivered twice (dup); a crash-restart of a node at
	// any decision point; an adversary vote injected at the start of a sub-phase (byz); a tick taken
	// by a strict subset of the nodes (skew); a fast-recovery timeout (fast). budget[k] bounds the
	// deviations of kind k per execution, maxDevs their total (-1: unbounded).
	lockstep bool
	budget   eagrDevs
	maxDevs  int
	devPeriods int  // >0: deviations only while every node's period is below this (C05: asynchronous prefix)
	byzAccts []int  // adversary accounts
	byzNodes []int  // nodes the adversary may send to (nil: all)
	byzSteps []step // steps the adversary votes in (nil: soft, cert, next)
	// onStep is called for every executed transition (pre-state, event, post-state, observations).
	// path() returns the event list from the initial state up to and including this event.
	onStep func(pre *eagrSys, e eagrEv, post *eagrSys, out *eagrOut, path func() []eagrEv)
}

type eagrBFSResult struct {
	states, transitions int64
	depth               int
	exhaustive          bool
	capReason           string
	stats               eagrStats
	maxPeriod           uint64
	layerSizes          []int
	dfsRoots            int
}

type eagrVisited struct {
	shards [256]struct {
		mu sync.Mutex
		m  map[[16]byte]struct{}
	}
}

func (v *eagrVisited) has(k [16]byte) bool {
	sh := &v.shards[k[0]]
	sh.mu.Lock()
	defer sh.mu.Unlock()
	_, ok := sh.m[k]
	return ok
}

func (v *eagrVisited) add(k [16]byte) bool {
	sh := &v.shards[k[0]]
	sh.mu.Lock()
	defer sh.mu.Unlock()
	if sh.m == nil {
		sh.m = map[[16]byte]struct{}{}
	}
	if _, ok := sh.m[k]; ok {
		return false
	}
	sh.m[k] = struct{}{}
	return true
}

// enabled lists the events schedulable in s under the bounds of b.
func (b *eagrBFS) enabled(s *eagrSys) []eagrEv {
	var evs []eagrEv
	crashes := 0
	for _, n := range s.nodes {
		crashes += n.crashes
	}
	if b.lockstep {
		maxP := 0
		for _, n := range s.nodes {
			if !n.passive && int(n.p.Period) > maxP {
				maxP = int(n.p.Period)
			}
		}
		can := func(kind int) bool {
			if b.devPeriods > 0 && maxP >= b.devPeriods {
				return false // deviations are confined to the first devPeriods periods (asynchronous prefix)
			}
			return int(s.devs[kind]) < int(b.budget[kind]) && (b.maxDevs < 0 || s.devs.total() < b.maxDevs)
		}
		crashEvs := func() {
			if can(eagrDevCrash) {
				for j, n := range s.nodes {
					if !n.passive {
						evs = append(evs, eagrEv{K: "crash", N: j})
					}
				}
			}
			if can(eagrDevCrashLose) {
				for j, n := range s.nodes {
					if !n.passive && n.led.next >= 2 && n.lostBlock == nil {
						evs = append(evs, eagrEv{K: "crashlose", N: j})
					}
				}
			}
			// the lost block may come back at any decision point (not a deviation)
			for j, n := range s.nodes {
				if !n.passive && n.lostBlock != nil {
					evs = append(evs, eagrEv{K: "relearn", N: j})
				}
			}
		}
		// loopback first (only present when the loopback queue is not modelled as atomic)
		for j, n := range s.nodes {
			if len(n.loop) > 0 && !n.passive {
				evs = append(evs, eagrEv{K: "loop", N: j})
				crashEvs()
				return evs
			}
		}
		best := -1
		for i, f := range s.flight {
			if !f.parked && f.seq <= s.barrier && (best < 0 || f.seq < s.flight[best].seq) {
				best = i
			}
		}
		byzEvs := func() {
			if !s.subStart || !can(eagrDevByz) {
				return
			}
			var vals []string
			for pv := range s.values {
				vals = append(vals, eagrPV(pv))
			}
			sort.Strings(vals)
			steps := b.byzSteps
			if steps == nil {
				steps = []step{soft, cert, next}
			}
			for j, n := range s.nodes {
				if n.passive {
					continue
				}
				if b.byzNodes != nil {
					ok := false
					for _, x := range b.byzNodes {
						ok = ok || x == j
					}
					if !ok {
						continue
					}
				}
				for _, acct := range b.byzAccts {
					for _, st := range steps {
						vs := vals
						if st == next {
							vs = append(append([]string(nil), vals...), "bot")
						}
						for _, v := range vs {
							evs = append(evs, eagrEv{K: "byz", N: j, Acct: acct, R: uint64(n.p.Round), P: uint64(n.p.Period), S: uint64(st), V: v})
						}
					}
				}
			}
		}
		cutEvs := func() {
			if !s.subStart || s.cut.active || !can(eagrDevCut) {
				return
			}
			// a cut is taken when the first votes of that (period, step) are about to be delivered
			// (taking it earlier changes nothing)
			type ps struct {
				p period
				s step
			}
			seen := map[ps]bool{}
			var order []ps
			for _, f := range s.flight {
				if f.m.tag == protocol.AgreementVoteTag && f.m.vote.R.Step >= soft && f.m.vote.R.Step <= next {
					k := ps{f.m.vote.R.Period, f.m.vote.R.Step}
					if !seen[k] {
						seen[k] = true
						order = append(order, k)
					}
				}
			}
			sort.Slice(order, func(i, j int) bool {
				return order[i].p < order[j].p || (order[i].p == order[j].p && order[i].s < order[j].s)
			})
			for _, k := range order {
				for j, n := range s.nodes {
					if n.passive {
						continue
					}
					for _, mode := range []string{"only", "iso"} {
						evs = append(evs, eagrEv{K: "cut", N: j, P: uint64(k.p), S: uint64(k.s), V: mode})
					}
				}
			}
		}
		fateEvs := func() {
			if !s.subStart || !(can(eagrDevFateSoftLate) || can(eagrDevFateSplit) || can(eagrDevFateMiss)) {
				return
			}
			type rps struct {
				r basics.Round
				p period
				s step
			}
			seen := map[rps]bool{}
			var order []rps
			for _, f := range s.flight {
				if f.m.tag == protocol.AgreementVoteTag && !f.parked && f.m.vote.R.Step >= soft && f.m.vote.R.Step <= next {
					k := rps{f.m.vote.R.Round, f.m.vote.R.Period, f.m.vote.R.Step}
					dup := false
					for _, x := range s.fates {
						dup = dup || (x.round == k.r && x.period == k.p && x.step == k.s)
					}
					if !seen[k] && !dup {
						seen[k] = true
						order = append(order, k)
					}
				}
			}
			sort.Slice(order, func(i, j int) bool {
				a, c := order[i], order[j]
				return a.r < c.r || (a.r == c.r && (a.p < c.p || (a.p == c.p && a.s < c.s)))
			})
			nn := len(s.nodes)
			for _, k := range order {
				base := eagrEv{K: "fate", R: uint64(k.r), P: uint64(k.p), S: uint64(k.s)}
				if k.s == soft && can(eagrDevFateSoftLate) {
					for d := 1; d <= 2; d++ {
						e := base
						e.V, e.Idx = "late", d
						evs = append(evs, e)
					}
				}
				if k.s == next && can(eagrDevFateSplit) {
					for j, n := range s.nodes {
						if n.passive {
							continue
						}
						for mask := 0; mask < 1<<uint(nn); mask++ {
							if mask&(1<<uint(j)) != 0 {
								continue
							}
							e := base
							e.V, e.N, e.Idx = "split", j, mask
							evs = append(evs, e)
						}
					}
				}
				if k.s == cert && can(eagrDevFateMiss) {
					for j, n := range s.nodes {
						if n.passive {
							continue
						}
						for late := 0; late <= 1; late++ {
							e := base
							e.V, e.N, e.Idx = "miss", j, late
							evs = append(evs, e)
						}
					}
				}
			}
		}
		downEvs := func() {
			if !s.subStart || !can(eagrDevDown) {
				return
			}
			for j, n := range s.nodes {
				if !n.passive {
					evs = append(evs, eagrEv{K: "down", N: j})
				}
			}
		}
		offEvs := func() {
			if !s.subStart || s.offLeft > 0 || !can(eagrDevOff) {
				return
			}
			for j, n := range s.nodes {
				if n.passive {
					continue
				}
				for d := 1; d <= 4; d++ {
					evs = append(evs, eagrEv{K: "offline", N: j, Idx: d})
				}
			}
		}
		if best >= 0 {
			f := s.flight[best]
			evs = append(evs, eagrEv{K: "deliver", N: f.dst, M: f.m.ID(), D: f.m.desc})
			if can(eagrDevDrop) {
				evs = append(evs, eagrEv{K: "drop", N: f.dst, M: f.m.ID(), D: f.m.desc})
			}
			if can(eagrDevHold) {
				evs = append(evs, eagrEv{K: "hold", N: f.dst, M: f.m.ID(), D: f.m.desc})
			}
			if can(eagrDevReorder) {
				evs = append(evs, eagrEv{K: "reorder", N: f.dst, M: f.m.ID(), D: f.m.desc})
			}
			if can(eagrDevDup) {
				evs = append(evs, eagrEv{K: "dup", N: f.dst, M: f.m.ID(), D: f.m.desc})
			}
			if f.m.tag == protocol.ProposalPayloadTag && can(eagrDevSlow) {
				evs = append(evs, eagrEv{K: "slow", M: f.m.ID(), Idx: 1, D: f.m.desc}, eagrEv{K: "slow", M: f.m.ID(), Idx: 2, D: f.m.desc})
			}
			crashEvs()
			byzEvs()
			cutEvs()
			offEvs()
			fateEvs()
			downEvs()
			return evs
		}
		if b.cfg.virtualTime {
			// nothing left to deliver: the ledger of a node whose next round was committed elsewhere
			// fetches the block (catch-up service / EnsureDigest), which interrupts the round
			for j, n := range s.nodes {
				if n.passive {
					continue
				}
				if n.behind < b.cfg.catchupDelay {
					continue
				}
				for _, o := range s.nodes {
					if _, ok := o.led.entries[n.led.next]; ok && o != n {
						return append(evs, eagrEv{K: "catchup", N: j})
					}
				}
			}
			active := false
			for _, n := range s.nodes {
				active = active || !n.passive
			}
			if active {
				evs = append(evs, eagrEv{K: "vtick"})
			}
			crashEvs()
			downEvs()
			return evs
		}
		mask := 0
		for j, n := range s.nodes {
			if !n.passive && (n.p.Step < b.maxStep || (n.p.Step == b.maxStep && n.p.Napping)) {
				mask |= 1 << uint(j)
			}
		}
		if mask != 0 {
			evs = append(evs, eagrEv{K: "tick", Idx: mask})
			if can(eagrDevSkew) {
				for sub := 1; sub < mask; sub++ {
					if sub&mask == sub {
						evs = append(evs, eagrEv{K: "tick", Idx: sub, S: 1})
					}
				}
			}
		}
		if can(eagrDevFast) {
			for j, n := range s.nodes {
				if !n.passive {
					evs = append(evs, eagrEv{K: "fast", N: j})
				}
			}
		}
		crashEvs()
		byzEvs()
		cutEvs()
		offEvs()
		return evs
	}
	for j, n := range s.nodes {
		if n.passive {
			continue
		}
		seen := map[*eagrMsg]bool{}
		for _, f := range s.flight {
			if f.dst == j && !seen[f.m] {
				seen[f.m] = true
				evs = append(evs, eagrEv{K: "deliver", N: j, M: f.m.ID(), D: f.m.desc})
			}
		}
		if n.p.Step < b.maxStep || (n.p.Step == b.maxStep && n.p.Napping) {
			evs = append(evs, eagrEv{K: "timeout", N: j})
		}
		if b.fast {
			evs = append(evs, eagrEv{K: "fast", N: j})
		}
		if crashes < b.maxCrashes {
			evs = append(evs, eagrEv{K: "crash", N: j})
		}
		if b.catchup {
			for _, o := range s.nodes {
				if _, ok := o.led.entries[n.led.next]; ok && o != n {
					evs = append(evs, eagrEv{K: "catchup", N: j})
					break
				}
			}
		}
	}
	return evs
}

var eagrDebugDepth = func() int { n, _ := strconv.Atoi(os.Getenv("EAGR_DEBUG_DEPTH")); return n }()
var eagrDebugOnce atomic.Bool

type eagrBFSState struct {
	sys  *eagrSys
	path *eagrPath
}

// run explores every state reachable under the bounds. It proceeds breadth-first (layer by layer,
// in parallel) until the frontier holds at least switchAt states, then continues depth-first from
// every frontier state in parallel with the same shared visited set: the set of states visited is
// the same as for a pure BFS (all reachable states, each expanded exactly once) but only the DFS
// stacks are kept alive, not a frontier of hundreds of thousands of live node objects.
func (b *eagrBFS) run(r *ve.Run) eagrBFSResult {
	res := eagrBFSResult{exhaustive: true}
	var visited eagrVisited
	b.lastVisited = &visited
	init := eagrNewSys(b.cfg)
	out0 := &eagrOut{}
	init.boot(out0)
	init.fixBarrier()
	root := &eagrPath{}
	if b.onStep != nil {
		b.onStep(init, eagrEv{K: "boot"}, init, out0, func() []eagrEv { return nil })
	}
	visited.add(init.key())
	var states, transitions atomic.Int64
	states.Store(1)
	frontier := []eagrBFSState{{sys: init, path: root}}
	var statsMu sync.Mutex
	var maxPeriod, maxDepth atomic.Uint64
	var stop atomic.Bool
	var capMu sync.Mutex
	capped := func(why string) {
		capMu.Lock()
		if res.exhaustive {
			res.exhaustive = false
			res.capReason = why
		}
		capMu.Unlock()
		stop.Store(true)
	}
	switchAt := b.switchAt
	if switchAt == 0 {
		switchAt = 256
	}
	// expand runs every enabled event of st; fresh successors are handed to visit.
	expand := func(st eagrBFSState, depth int, local *eagrStats, visit func(eagrBFSState)) {
		for _, e := range b.enabled(st.sys) {
			if stop.Load() {
				return
			}
			t := st.sys.clone()
			t.stats = eagrStats{}
			out := &eagrOut{}
			if err := t.apply(e, out); err != nil {
				out.panicMsg = "harness: " + err.Error()
			}
			n := transitions.Add(1)
			local.add(&t.stats)
			np := &eagrPath{parent: st.path, ev: e, depth: depth + 1}
			if b.onStep != nil {
				b.onStep(st.sys, e, t, out, np.list)
			}
			if out.panicMsg != "" {
				continue // reported by onStep; the successor state is not meaningful
			}
			for _, nd := range t.nodes {
				if uint64(nd.p.Period) > maxPeriod.Load() && !nd.passive {
					maxPeriod.Store(uint64(nd.p.Period))
				}
			}
			if n&255 == 0 {
				if r.OutOfTime() {
					capped(fmt.Sprintf("time budget ended after %d transitions", n))
				}
				if r.Violations() > 0 {
					capped("stopped after a violation")
				}
			}
			if eagrDebugDepth > 0 && depth+1 == eagrDebugDepth && eagrDebugOnce.CompareAndSwap(false, true) {
				for i, x := range np.list() {
					fmt.Printf("DEBUGPATH %3d %v\n", i, x)
				}
				capped("debug depth reached")
			}
			if visited.add(t.key()) {
				ns := states.Add(1)
				if uint64(depth+1) > maxDepth.Load() {
					maxDepth.Store(uint64(depth + 1))
				}
				if b.maxStates > 0 && ns >= b.maxStates {
					capped(fmt.Sprintf("state cap %d reached", b.maxStates))
				}
				visit(eagrBFSState{sys: t, path: np})
			}
		}
	}
	depth := 0
	for ; len(frontier) > 0 && len(frontier) < switchAt && !stop.Load(); depth++ {
		res.layerSizes = append(res.layerSizes, len(frontier))
		if b.maxDepth > 0 && depth >= b.maxDepth {
			// the declared bound of a breadth-first configuration: everything up to this depth was
			// explored, which is what the configuration claims
			res.capReason = fmt.Sprintf("(declared bound: complete up to %d events; %d states at the bound not expanded)", b.maxDepth, len(frontier))
			frontier = nil
			break
		}
		next := make([][]eagrBFSState, len(frontier))
		r.ParallelFor(len(frontier), func(i int) {
			var local eagrStats
			expand(frontier[i], depth, &local, func(c eagrBFSState) { next[i] = append(next[i], c) })
			statsMu.Lock()
			res.stats.add(&local)
			statsMu.Unlock()
		})
		var nf []eagrBFSState
		for i := range next {
			nf = append(nf, next[i]...)
		}
		frontier = nf
		if r.Violations() > 0 {
			capped("stopped after a violation")
		}
	}
	if len(frontier) > 0 && !stop.Load() {
		res.layerSizes = append(res.layerSizes, len(frontier))
		res.dfsRoots = len(frontier)
		var dfs func(st eagrBFSState, d int, local *eagrStats)
		dfs = func(st eagrBFSState, d int, local *eagrStats) {
			if b.maxDepth > 0 && d >= b.maxDepth {
				capped(fmt.Sprintf("depth cap %d reached", b.maxDepth))
				return
			}
			expand(st, d, local, func(c eagrBFSState) { dfs(c, d+1, local) })
		}
		done := r.ParallelFor(len(frontier), func(i int) {
			var local eagrStats
			dfs(frontier[i], depth, &local)
			statsMu.Lock()
			res.stats.add(&local)
			statsMu.Unlock()
		})
		if int(done) < len(frontier) {
			capped("time budget ended")
		}
	}
	res.states = states.Load()
	res.transitions = transitions.Load()
	res.maxPeriod = maxPeriod.Load()
	res.depth = int(maxDepth.Load())
	return res
}

// ---------------------------------------------------------------------------------------------
// C07 differential (also usable by any check: cfg.diff)

// eagrEphemeral lists the fields the code documents as not persisted; they are cleared in the
// reference image of a live state before it is compared with its decode(encode()) image.
var eagrEphemeral = map[string]string{
	"message.messageHandle":                  "message.go: 'explicitly unexport this field since we can't define serializers' (network handle of a live connection)",
	"networkAction.h":                        "actions.go: 'this is cleared to correctly handle ephemeral network state on recovery'",
	"proposal.ve":                            "proposal.go: 'This is not serialized to disk, so after a crash, we will fall back to applying the raw Block'",
	"proposal.validatedAt":                   "proposal.go: timing of validation relative to the round's zero, telemetry / dynamic filter timeout only",
	"unauthenticatedProposal.receivedAt":     "proposal.go: timing of receipt, telemetry only",
	"vote.validatedAt":                       "vote.go: timing of verification, feeds credentialArrivalHistory (length of the filter timeout) only",
	"player.dynamicFilterTimeout":            "player.go: 'used for reporting to telemetry'",
	"proposalSeeker.lowestIncludingLate":     "proposalTracker.go: late-credential tracking for the dynamic filter timeout",
	"proposalSeeker.hasLowestIncludingLate":  "proposalTracker.go: late-credential tracking for the dynamic filter timeout",
	"checkpointAction.done":                  "actions.go: 'We don't want to serialize that, since it's not needed in recovery/autopsy'",
	"ensureAction.voteValidatedAt":           "actions.go: telemetry",
	"ensureAction.dynamicFilterTimeout":      "actions.go: telemetry",
}

type eagrDiffer struct {
	copier   *eagrCopier
	states   atomic.Int64 // states round-tripped
	events   atomic.Int64 // events executed on both images
	actsCmp  atomic.Int64 // actions compared
	actTrips atomic.Int64 // action lists round-tripped
	second2  atomic.Int64 // second events executed on both images
	withKids atomic.Int64 // states with period / step sub-routers
	withEq   atomic.Int64 // states holding an equivocation record
	withPend atomic.Int64 // states with pending-table entries
	withNext atomic.Int64 // states holding next-round (pipelined) routers
}

func eagrNewDiffer() *eagrDiffer {
	return &eagrDiffer{copier: &eagrCopier{zero: eagrEphemeral}}
}

type eagrShadow struct {
	p    player
	rr   rootRouter
	acts []action
	pm   string
	err  string
	ref  *eagrNode // the ephemeral-cleared reference image, advanced by the same event
	refA []action
	refP string
}

// eagrPair is the (restored, reference) image pair after one event.
type eagrPair struct {
	rp  player
	rrr rootRouter
	fp  player
	frr rootRouter
	ev  string
}

// second applies the node's next event to copies of the pair left by the previous event: the
// restored node must still behave like the uncrashed one two events after the restore.
func (d *eagrDiffer) second(s *eagrSys, n *eagrNode, e externalEvent) string {
	pp := n.prevPair
	d.second2.Add(1)
	a := &eagrNode{id: n.id, led: n.led, zero: n.zero, hist: n.hist}
	a.p, a.rr = eagrCopyState(&pp.rp, &pp.rrr)
	b := &eagrNode{id: n.id, led: n.led, zero: n.zero, hist: n.hist}
	b.p, b.rr = eagrCopyState(&pp.fp, &pp.frr)
	aa, ap := a.rawSubmit(s, e)
	ba, bp := b.rawSubmit(s, e)
	if ap != "" || bp != "" {
		if (ap == "") != (bp == "") {
			return fmt.Sprintf("second event %s after %s: only one image panicked (restored: %q, reference: %q)", eagrEvStr(e), pp.ev, ap, bp)
		}
		return ""
	}
	ka, kb := eagrActsKey(ba), eagrActsKey(aa)
	if !reflect.DeepEqual(ka, kb) {
		return fmt.Sprintf("second event %s after %s: restored node emits %v, uncrashed node emits %v", eagrEvStr(e), pp.ev, kb, ka)
	}
	eagrDropOldRounds(&a.rr, &a.p)
	eagrDropOldRounds(&b.rr, &b.p)
	if !bytes.Equal(encode(eagrClock{}, a.rr, a.p, nil, false), encode(eagrClock{}, b.rr, b.p, nil, false)) {
		return fmt.Sprintf("second event %s after %s: successor of the restored node encodes differently from the successor of the uncrashed node (%s)", eagrEvStr(e), pp.ev, eagrStateDiff(&b.p, &b.rr, &a.p, &a.rr))
	}
	return ""
}

func eagrDropOldRounds(rr *rootRouter, p *player) {
	// encode(): "Don't persist state for old rounds"
	kids := map[basics.Round]*roundRouter{}
	for r, c := range rr.Children {
		if r >= p.Round {
			kids[r] = c
		}
	}
	if len(kids) == 0 {
		rr.Children = nil
	} else {
		rr.Children = kids
	}
}

var eagrStateDiffOpts = &eagrDiffOpts{skip: map[string]string{
	"rootRouter.root": "", "rootRouter.proposalRoot": "", "rootRouter.voteRoot": "",
	"roundRouter.proposalRoot": "", "roundRouter.voteRoot": "",
	"periodRouter.proposalRoot": "", "periodRouter.voteRoot": "",
	"stepRouter.voteRoot": "",
}}

var eagrActionDiffOpts = &eagrDiffOpts{skip: eagrEphemeral}

func eagrStateDiff(pa *player, ra *rootRouter, pb *player, rb *rootRouter) string {
	o := eagrStateDiffOpts
	if d := eagrDiff("player", reflect.ValueOf(pa).Elem(), reflect.ValueOf(pb).Elem(), o); d != "" {
		return d
	}
	return eagrDiff("router", reflect.ValueOf(ra).Elem(), reflect.ValueOf(rb).Elem(), o)
}

// prepare round-trips the live state of n through the persistence format and runs the event on
// the restored image and on the reference image (live state with the documented ephemeral fields cleared).
func (d *eagrDiffer) prepare(s *eagrSys, n *eagrNode, e externalEvent) *eagrShadow {
	sh := &eagrShadow{}
	d.states.Add(1)
	log := serviceLogger{s.cfg.env.log}
	clk := eagrClock{zero: n.zero}
	raw := encode(clk, n.rr, n.p, nil, false)
	c2, rr2, p2, _, err := decode(raw, eagrClock{}, log, false)
	if err != nil {
		sh.err = fmt.Sprintf("decode(encode(S)) failed: %v", err)
		return sh
	}
	if c2.(eagrClock).zero != n.zero {
		sh.err = "clock zero not restored"
		return sh
	}
	if raw2 := encode(c2, rr2, p2, nil, false); !bytes.Equal(raw, raw2) {
		sh.err = fmt.Sprintf("re-encoding the restored state gives different bytes (%d vs %d bytes)", len(raw), len(raw2))
		return sh
	}
	// reflection codec path
	rawR := encode(clk, n.rr, n.p, nil, true)
	c3, rr3, p3, _, err := decode(rawR, eagrClock{}, log, true)
	if err != nil {
		sh.err = fmt.Sprintf("decodeReflect(encodeReflect(S)) failed: %v", err)
		return sh
	}
	if raw3 := encode(c3, rr3, p3, nil, false); !bytes.Equal(raw, raw3) {
		sh.err = fmt.Sprintf("state restored through the reflection codec re-encodes differently (%d vs %d bytes)", len(raw), len(raw3))
		return sh
	}
	// independent reference image
	ref := &eagrNode{id: n.id, led: n.led, zero: n.zero, hist: n.hist}
	// player.lowestCredentialArrivals (history of credential arrival times; influences only the
	// duration of the period-0 filter timeout) is documented as not persisted: decode() re-creates
	// it empty, and so does the reference image.
	np := n.p
	np.lowestCredentialArrivals = makeCredentialArrivalHistory(dynamicFilterCredentialArrivalHistory)
	ref.p, ref.rr = d.copier.copyState(&np, &n.rr)
	eagrDropOldRounds(&ref.rr, &ref.p)
	if df := eagrStateDiff(&ref.p, &ref.rr, &p2, &rr2); df != "" {
		sh.err = "restored state differs from the live state: " + df
		return sh
	}
	d.classify(&ref.p, &ref.rr)
	// same event on both images
	d.events.Add(1)
	rn := &eagrNode{id: n.id, led: n.led, zero: n.zero, hist: n.hist, p: p2, rr: rr2}
	sh.acts, sh.pm = rn.rawSubmit(s, e)
	sh.p, sh.rr = rn.p, rn.rr
	sh.refA, sh.refP = ref.rawSubmit(s, e)
	sh.ref = ref
	return sh
}

func (d *eagrDiffer) classify(p *player, rr *rootRouter) {
	kids, eq, nxt := false, false, false
	for r, c := range rr.Children {
		if r > p.Round && len(c.Children) > 0 {
			nxt = true
		}
		for _, pc := range c.Children {
			for _, sc := range pc.Children {
				kids = true
				if len(sc.VoteTracker.Equivocators) > 0 {
					eq = true
				}
			}
		}
	}
	if kids {
		d.withKids.Add(1)
	}
	if eq {
		d.withEq.Add(1)
	}
	if nxt {
		d.withNext.Add(1)
	}
	if len(p.Pending.Pending) > 0 {
		d.withPend.Add(1)
	}
}

func eagrActsKey(as []action) []string {
	var r []string
	for _, a := range as {
		r = append(r, eagrActStr(a))
	}
	return r
}

// compare checks that the restored image and the reference image behaved identically on the event,
// and that the produced action list survives the persistence format.
func (d *eagrDiffer) compare(s *eagrSys, n *eagrNode, e externalEvent, live []action, sh *eagrShadow) string {
	if sh.err != "" {
		return sh.err
	}
	if sh.pm != "" || sh.refP != "" {
		if (sh.pm == "") != (sh.refP == "") {
			return fmt.Sprintf("event %s: only one image panicked (restored: %q, reference: %q)", eagrEvStr(e), sh.pm, sh.refP)
		}
		return ""
	}
	ka, kb := eagrActsKey(sh.refA), eagrActsKey(sh.acts)
	d.actsCmp.Add(int64(len(ka)))
	if !reflect.DeepEqual(ka, kb) {
		return fmt.Sprintf("event %s: restored node emits %v, uncrashed node emits %v", eagrEvStr(e), kb, ka)
	}
	eagrDropOldRounds(&sh.ref.rr, &sh.ref.p)
	eagrDropOldRounds(&sh.rr, &sh.p)
	ra := encode(eagrClock{}, sh.ref.rr, sh.ref.p, nil, false)
	rb := encode(eagrClock{}, sh.rr, sh.p, nil, false)
	df := eagrStateDiff(&sh.ref.p, &sh.ref.rr, &sh.p, &sh.rr)
	if !bytes.Equal(ra, rb) {
		return fmt.Sprintf("event %s: successor of the restored node encodes differently from the successor of the uncrashed node (%s)", eagrEvStr(e), df)
	}
	if df != "" {
		return fmt.Sprintf("event %s: successor states differ: %s", eagrEvStr(e), df)
	}
	// pending actions: the list produced by the live node must survive encode/decode
	// (only lists containing a persistent action are ever written by Service.persistState)
	if persistent(live) {
		d.actTrips.Add(1)
		log := serviceLogger{s.cfg.env.log}
		raw := encode(eagrClock{zero: n.zero}, n.rr, n.p, live, false)
		_, _, _, a2, err := decode(raw, eagrClock{}, log, false)
		if err != nil {
			return fmt.Sprintf("decode of state with pending actions %v failed: %v", eagrActsKey(live), err)
		}
		if len(a2) != len(live) {
			return fmt.Sprintf("pending actions: %d persisted, %d restored", len(live), len(a2))
		}
		o := eagrActionDiffOpts
		for i := range live {
			x := reflect.New(reflect.TypeOf(live[i])).Elem()
			x.Set(reflect.ValueOf(live[i]))
			if reflect.TypeOf(a2[i]) != reflect.TypeOf(live[i]) {
				return fmt.Sprintf("pending action %d: type %T restored as %T", i, live[i], a2[i])
			}
			y := reflect.New(reflect.TypeOf(a2[i])).Elem()
			y.Set(reflect.ValueOf(a2[i]))
			if df := eagrDiff(fmt.Sprintf("action[%d:%s]", i, live[i].t()), x, y, o); df != "" {
				return "pending action restored differently: " + df
			}
		}
	}
	return ""
}

// eagrJSON renders an event list compactly for samples.
func eagrJSON(evs []eagrEv) string {
	b, _ := json.Marshal(evs)
	return string(b)
}

// ---------------------------------------------------------------------------------------------
// standard configurations and the check runner shared by C01 / C03 / C07 / C02(i)

func eagrBudget(drop, hold, dup, crash, byz, skew, fast int8) eagrDevs {
	var d eagrDevs
	d[eagrDevDrop], d[eagrDevHold], d[eagrDevDup], d[eagrDevCrash], d[eagrDevByz], d[eagrDevSkew], d[eagrDevFast] = drop, hold, dup, crash, byz, skew, fast
	return d
}

func (d eagrDevs) with(kind int, n int8) eagrDevs {
	d[kind] = n
	return d
}

// eagrHonest3 builds a configuration of 3 honest single-account nodes, threshold 2 of 3.
func eagrHonest3(name string, proposers, noProp []bool, maxRound basics.Round, maxPeriod period) *eagrBFS {
	env := eagrGetEnv(3, 2)
	cfg := &eagrCfg{env: env, nNodes: 3, atomicVerify: true, atomicLoop: true, flightSet: true,
		maxRound: maxRound, maxPeriod: maxPeriod, proposers: proposers, noProposalTo: noProp}
	return &eagrBFS{name: name, cfg: cfg, maxStep: next}
}

// eagrHonest3W is eagrHonest3 with unequal stakes (weights 10/45/45, threshold 70 of 100: the two
// large nodes form a quorum, the small node with one large node does not).
func eagrHonest3W(name string, proposers, noProp []bool, maxRound basics.Round, maxPeriod period) *eagrBFS {
	env := eagrGetEnvStakes([]uint64{10, 45, 45}, 70)
	cfg := &eagrCfg{env: env, nNodes: 3, atomicVerify: true, atomicLoop: true, flightSet: true,
		maxRound: maxRound, maxPeriod: maxPeriod, proposers: proposers, noProposalTo: noProp}
	return &eagrBFS{name: name, cfg: cfg, maxStep: next}
}

// eagrHonest5 builds a configuration of 5 honest single-account nodes, threshold 4 of 5.
func eagrHonest5(name string, proposers []bool, maxRound basics.Round, maxPeriod period) *eagrBFS {
	env := eagrGetEnv(5, 4)
	cfg := &eagrCfg{env: env, nNodes: 5, atomicVerify: true, atomicLoop: true, flightSet: true,
		maxRound: maxRound, maxPeriod: maxPeriod, proposers: proposers}
	return &eagrBFS{name: name, cfg: cfg, maxStep: next}
}

// eagrByz4 builds a configuration of 3 honest nodes + 1 adversary account, threshold 3 of 4.
func eagrByz4(name string, proposers []bool, maxRound basics.Round, maxPeriod period) *eagrBFS {
	env := eagrGetEnv(4, 3)
	cfg := &eagrCfg{env: env, nNodes: 3, atomicVerify: true, atomicLoop: true, flightSet: true,
		maxRound: maxRound, maxPeriod: maxPeriod, proposers: proposers, trackValues: true, forward: true}
	return &eagrBFS{name: name, cfg: cfg, maxStep: next, byzAccts: []int{3}}
}

// lock turns b into a deviation-bounded exploration around the synchronous schedule.
func (b *eagrBFS) lock(budget eagrDevs, maxDevs int, maxStates int64) *eagrBFS {
	b.cfg.ordered = true
	b.lockstep, b.budget, b.maxDevs, b.maxStates = true, budget, maxDevs, maxStates
	return b
}

func (b *eagrBFS) describe() string {
	c := b.cfg
	var sb strings.Builder
	fmt.Fprintf(&sb, "%d honest nodes, accounts with stakes %v, threshold %d of %d for every step, rounds<=%d, periods<=%d, timeouts up to step %d", c.nNodes, c.env.stakes, c.env.threshold, c.env.total, c.maxRound, c.maxPeriod, b.maxStep)
	if c.proposers != nil {
		fmt.Fprintf(&sb, ", period-0 proposers %v", c.proposers)
	}
	if c.noProposalTo != nil {
		fmt.Fprintf(&sb, ", period-0 payloads never reach %v", c.noProposalTo)
	}
	if b.lockstep {
		fmt.Fprintf(&sb, "; ALL executions that depart from the synchronous schedule by at most %d deviations (per kind:", b.maxDevs)
		for k, n := range b.budget {
			if n > 0 {
				fmt.Fprintf(&sb, " %s<=%d", eagrDevNames[k], n)
			}
		}
		sb.WriteString(")")
	} else {
		fmt.Fprintf(&sb, "; full asynchronous reachability (any delivery order, never-delivered = lost, any-time timeouts, crashes<=%d), complete up to %d events (breadth-first)", b.maxCrashes, b.maxDepth)
	}
	return sb.String()
}

type eagrReplayFile struct {
	Config string   `json:"config"`
	Events []eagrEv `json:"events"`
}

// eagrCheck is one property check built on the explorers.
type eagrCheck struct {
	id      string
	level   string
	configs []*eagrBFS
	// oracle is evaluated on every executed transition; it reports violations itself.
	oracle func(r *ve.Run, b *eagrBFS, pre *eagrSys, e eagrEv, post *eagrSys, out *eagrOut, path func() []eagrEv)
	rule   string
	assume []string
	finish func(r *ve.Run, total *eagrStats)
}

func eagrReplayOf(b *eagrBFS, path func() []eagrEv) any {
	return map[string]any{"engine": "E-AGR", "config": b.name, "events": path()}
}

func eagrRunCheck(t *testing.T, c *eagrCheck) {
	r := ve.NewRun(c.id, c.level)
	if len(c.configs) > 0 {
		inits, ahead, note := eagrProbeRestorePath(c.configs[0].cfg.env)
		for _, b := range c.configs {
			b.cfg.restoreInitsPersist = inits
			b.cfg.restoreKeepsAhead = ahead
		}
		r.Note("restore-path probe: %s", note)
	}
	if raw := r.ReplayRequest(); raw != nil {
		var rp eagrReplayFile
		if err := json.Unmarshal(raw, &rp); err != nil {
			t.Fatalf("bad replay file: %v", err)
		}
		var b *eagrBFS
		for _, x := range c.configs {
			if x.name == rp.Config {
				b = x
			}
		}
		if b == nil {
			t.Fatalf("replay: unknown configuration %q", rp.Config)
		}
		pre := eagrNewSys(b.cfg)
		_, err := eagrReplay(b.cfg, rp.Events, func(i int, e eagrEv, s *eagrSys, out *eagrOut) bool {
			fmt.Printf("REPLAY %3d %v\n", i, e)
			for _, sub := range out.subs {
				fmt.Printf("        n%d %-64s -> %v\n", sub.node, sub.event, sub.acts)
			}
			for _, cm := range out.commits {
				fmt.Printf("        COMMIT node %d round %d period %d block %s\n", cm.node, cm.act.Certificate.Round, cm.period, eagrPV(cm.act.Certificate.Proposal))
			}
			c.oracle(r, b, pre, e, s, out, func() []eagrEv { return rp.Events[:i+1] })
			pre = s.deepClone()
			return true
		})
		if err != nil {
			fmt.Printf("REPLAY-DIVERGED %v (the recorded execution does not exist on this tree)\n", err)
		}
		if r.Finish(ve.Coverage{Rule: "replay of " + rp.Config, Exhaustive: false}) > 0 {
			t.Fatal("violations")
		}
		return
	}
	var cov ve.Coverage
	cov.Exhaustive = true
	var total eagrStats
	var rules []string
	for _, b := range c.configs {
		b := b
		var sampled atomic.Int64
		b.onStep = func(pre *eagrSys, e eagrEv, post *eagrSys, out *eagrOut, path func() []eagrEv) {
			r.Eval()
			c.oracle(r, b, pre, e, post, out, path)
			for _, cm := range out.commits {
				r.Class(fmt.Sprintf("%s/commit/n%d/p%d", b.name, cm.node, cm.period))
				if sampled.Add(1) <= 2 {
					r.Sample(map[string]any{"config": b.name, "commit": fmt.Sprintf("node %d round %d period %d", cm.node, cm.act.Certificate.Round, cm.period), "events": fmt.Sprint(path())})
				}
			}
		}
		res := b.run(r)
		cov.States += res.states
		cov.Transitions += res.transitions
		cov.Traces += res.transitions
		if !res.exhaustive {
			cov.Exhaustive = false
			r.Capped()
		}
		total.add(&res.stats)
		st := res.stats
		r.Note("%s: states=%d transitions=%d maxdepth=%d exhaustive=%v %s | commits=%d period>0 steps=%d (max period %d) timeouts=%d deliveries=%d attests=%d persists=%d crashes=%d (restored %d, fresh %d) adversary votes=%d (equivocations recorded %d) bundles sent=%d",
			b.name, res.states, res.transitions, res.depth, res.exhaustive, res.capReason, st.commits, st.period1, res.maxPeriod, st.timeouts, st.deliveries, st.attests, st.persists, st.crashes, st.restoresFromDisk, st.restoresFresh, st.byzVotes, st.equivocations, st.bundlesSent)
		fmt.Printf("%s %s: states=%d transitions=%d depth=%d exhaustive=%v %s commits=%d maxPeriod=%d crashes=%d byz=%d eq=%d\n", c.id, b.name, res.states, res.transitions, res.depth, res.exhaustive, res.capReason, st.commits, res.maxPeriod, st.crashes, st.byzVotes, st.equivocations)
		rules = append(rules, "["+b.name+"] "+b.describe())
		if r.Violations() > 0 {
			break
		}
	}
	r.Set("commits_observed", total.commits)
	r.Set("submitTop_calls", total.submits)
	r.Set("period_gt0_steps", total.period1)
	r.Set("crash_restarts", total.crashes)
	r.Set("restores_from_disk", total.restoresFromDisk)
	r.Set("adversary_votes", total.byzVotes)
	r.Set("equivocations_recorded", total.equivocations)
	r.Set("timeouts", total.timeouts)
	r.Set("deliveries", total.deliveries)
	if c.finish != nil {
		c.finish(r, &total)
	}
	for _, a := range c.assume {
		r.Assume(a)
	}
	cov.Rule = c.rule + " Configurations: " + strings.Join(rules, " || ")
	if r.Finish(cov) > 0 {
		t.Fatal("violations")
	}
}

// eagrSafetyConfigs returns the configurations explored by the safety checks (C01, C03) and, at a
// reduced scale, by C07 (whose differential costs a multiple per transition).
// scale 0 = reduced, 1 = quick, 2 = thorough.
func eagrSafetyConfigs(scale int) []*eagrBFS {
	p1 := []bool{true, false, false}
	cl := []bool{false, false, true}
	k := int8(scale)
	cap := []int64{150000, 600000, 6000000}[scale]
	cfgs := []*eagrBFS{
		eagrHonest3("sync-1prop", p1, nil, 1, 1).lock(eagrBudget(2+k, 2+k, 0, 0, 0, 0, 0), int(2+k), cap),
		eagrHonest3("sync-1prop-latepayload", p1, cl, 1, 1).lock(eagrBudget(2+k, 2+k, 0, 0, 0, 0, 0), int(2+k), cap),
		eagrHonest3("sync-3prop", nil, nil, 1, 1).lock(eagrBudget(1+k, 1+k, 0, 0, 0, 0, 0), int(1+k), cap),
		eagrHonest3("sync-3prop-faults", nil, nil, 1, 1).lock(eagrBudget(2, 1, 1, 1, 0, 1, 1).with(eagrDevReorder, 1), int(1+k), cap),
		eagrHonest3("sync-3prop-2rounds", nil, nil, 2, 1).lock(eagrBudget(2, 2, 0, 1, 0, 0, 0), int(1+k), cap),
	}
	// selective delivery: one slow payload + one vote cut (+ one lost/late message in thorough), equal
	// and unequal stakes
	kn := int8(0)
	if scale == 2 {
		kn = 1
	}
	net := eagrBudget(kn, kn, 0, 0, 0, 0, 0).with(eagrDevSlow, 1).with(eagrDevCut, 1).with(eagrDevOff, 1)
	cfgs = append(cfgs,
		eagrHonest3("sync-1prop-netsplit", p1, nil, 1, 1).lock(net, int(2+kn), cap),
		eagrHonest3W("sync-3prop-w10-45-45-netsplit", nil, nil, 1, 1).lock(net, int(2+kn), cap),
		eagrHonest3W("sync-3prop-w10-45-45", nil, nil, 1, 1).lock(eagrBudget(1+k, 1+k, 0, 0, 0, 0, 0), int(1+k), cap))
	// a crash-restart combined with selective delivery (the restarted node runs on to its next timeouts)
	cfgs = append(cfgs, eagrHonest3("sync-1prop-latepayload-crashcut", p1, cl, 1, 1).lock(eagrBudget(kn, kn, 0, 1, 0, 0, 0).with(eagrDevCut, 1), int(2+kn), cap))
	if scale == 0 {
		// equivocation records on one node, cheaply: adversary votes (soft / next) to node 0 only
		eq := eagrByz4("byz-3of4-equivocate-n0", p1, 1, 1).lock(eagrBudget(0, 0, 0, 0, 2, 0, 0), 2, cap)
		eq.byzNodes, eq.byzSteps = []int{0}, []step{soft, next}
		cfgs = append(cfgs, eq)
	} else {
		cfgs = append(cfgs, eagrByz4("byz-3of4", nil, 1, 1).lock(eagrBudget(2, 1, 0, 0, 2, 0, 0), int(1+k), cap))
	}
	// full asynchronous reachability, complete up to a depth (pure breadth-first: deterministic)
	async := eagrHonest3("async-1prop", p1, nil, 1, 1)
	async.maxCrashes = 1
	async.switchAt = 1 << 30
	async.maxDepth = []int{4, 6, 7}[scale]
	return append(cfgs, async)
}

type eagrAtomicMax struct{ v atomic.Int64 }

func (m *eagrAtomicMax) update(x int64) {
	for {
		old := m.v.Load()
		if x <= old || m.v.CompareAndSwap(old, x) {
			return
		}
	}
}
