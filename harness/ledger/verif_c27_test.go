package ledger

// C27 — Suspension and expiry lists are justified.
//
// Engine E-ENUM (exhaustive small-scope input enumeration), level exploration.
//
// For each of 72 genesis populations a real ledger is built and advanced with empty
// blocks to round r-1 (r = 70; < 320, so agreement stake is the genesis stake, and
// < Payouts.ChallengeInterval, so NO heartbeat challenge is active - the code also
// legitimately accepts challenge-failed accounts, which the statement does not mention).
// A population has three candidate accounts with genesis stake "tiny" (1000 uAlgos: the
// allowable lag exceeds 2^32), "third" and "most"; each candidate's remaining attributes
// run through the full 72-element domain
//     status in {Online, Suspended (Offline, keys kept)} x VoteLastValid in {r-1, r, r+1, 0}
//       x last-seen in {0, r-lag-1, r-lag, r-lag+1} x IncentiveEligible in {t,f}
//     + status Offline without vote key x last-seen x IncentiveEligible
// (lag = floor(20 * totalOnlineStake / stake) computed per population; the last-seen
// round is stored in LastHeartbeat or LastProposed alternately, the other one smaller),
// population j giving slot k the attribute combination (j + 24k) mod 72 (thorough tier:
// also shifts 8 and 55, 216 populations), so every (stake class, attribute combination)
// pair occurs. Plus a "ghost" candidate that does not
// exist, and 33 filler accounts (Offline with keys that expired at round 1).
// Per population the block for round r is built by the generator (GenerateBlock), then
//   - every pair of subsets of the 4 candidates is placed in ExpiredParticipationAccounts /
//     AbsentParticipationAccounts (16 x 16), plus for every candidate a duplicated entry in
//     either list, plus 32 / 33 justified expired fillers (length limit),
// and the block is re-evaluated with validation (eval.Eval validate=true, the code path of
// Ledger.Validate). A separate population at r = 700 has 34 equal online accounts that
// are all absent, to test the length limit of the absent list (32 accepted, 33 rejected).
//
// A third special population sits at r = 1201, inside the enforcement window of the
// heartbeat challenge issued at round 1000 (window 1201..1400): 24 accounts (address shares
// the 5 challenge bits with the seed of block 1000 or not x last seen at 1 / 999 / 1000 x
// eligible x Online/Suspended) next to a heavy anchor account that keeps everybody's
// stake-proportional lag above r. Singletons and pairs are placed in the absent list; the
// documented second justification is "failed the challenge AND Online AND eligible".
//
// Oracle (harness, big.Int): the block is accepted iff
//   every expired entry has a vote key and VoteLastValid < r, and
//   every absent entry is Online, IncentiveEligible, has a non-zero balance, last-seen != 0,
//     non-zero stake and  20 * totalOnlineStake < (r - lastSeen) * stake
//     (<=> lastSeen + 20*total/stake < r, the documented stake-proportional rule), and
//   neither list contains a duplicate or more than the protocol's 32 entries.
// Bracketed: a justified account that appears in BOTH lists (the code applies the expiry
// first, after which the account is no longer online; the statement does not order them).
// The generator's own lists must be justified by the same oracle and its block accepted.
//
// Not covered: challenge windows beyond the one dedicated population, rounds >= 320 for the candidate populations
// (stake look-back beyond genesis), accounts modified inside the evaluated block,
// rewards (switched off).
//
// Mutants, all DETECTED by the quick tier (bin/mut ... --only):
//   M1 eval.go isAbsent: `lastSeen+basics.Round(allowableLag) < current` -> `<=`
//   M2 eval.go validateExpiredOnlineAccounts: `acctData.VoteLastValid >= currentRound` -> `>`
//   M3 eval.go validateAbsentOnlineAccounts: IncentiveEligible check dropped
//   M4 eval.go validateAbsentOnlineAccounts: duplicate check dropped
//   M5 eval.go isAbsent: absentFactor 20 -> 19 (multi-account boundary)

// Independent seeded changes: C27-A (a suspended account may be listed expired before its
// VoteLastValid) DETECTED by the Suspended x VoteLastValid {r, r+1} candidates; C27-B (a
// failed challenge accepted before the IncentiveEligible check) DETECTED since the
// challenge-window population was added.

import (
	"context"
	"errors"
	"fmt"
	"math/big"
	"os"
	"path/filepath"
	"runtime/debug"
	"sort"
	"strings"
	"sync"
	"testing"

	"github.com/algorand/go-deadlock"

	"github.com/algorand/go-algorand/agreement"
	"github.com/algorand/go-algorand/config"
	"github.com/algorand/go-algorand/crypto"
	"github.com/algorand/go-algorand/crypto/merklesignature"
	"github.com/algorand/go-algorand/data/basics"
	"github.com/algorand/go-algorand/data/bookkeeping"
	"github.com/algorand/go-algorand/data/committee"
	"github.com/algorand/go-algorand/data/transactions/verify"
	"github.com/algorand/go-algorand/ledger/eval"
	"github.com/algorand/go-algorand/ledger/ledgercore"
	"github.com/algorand/go-algorand/logging"
	"github.com/algorand/go-algorand/protocol"
	ve "github.com/algorand/go-algorand/verifeng"
)

const (
	c27Online = iota
	c27Suspended
	c27Offline
)

type c27attr struct {
	Status   int // c27Online / c27Suspended / c27Offline (no key)
	VlvSel   int // 0: r-1, 1: r, 2: r+1, 3: 0
	SeenSel  int // 0: 0, 1: r-lag-1, 2: r-lag, 3: r-lag+1
	Eligible bool
}

func c27domain() []c27attr {
	var d []c27attr
	for _, st := range []int{c27Online, c27Suspended} {
		for v := 0; v < 4; v++ {
			for s := 0; s < 4; s++ {
				for _, e := range []bool{true, false} {
					d = append(d, c27attr{st, v, s, e})
				}
			}
		}
	}
	for s := 0; s < 4; s++ {
		for _, e := range []bool{true, false} {
			d = append(d, c27attr{c27Offline, 3, s, e})
		}
	}
	return d
}

// c27acct is what the harness knows about a candidate (its own copy of the genesis facts).
type c27acct struct {
	Name     string
	Addr     basics.Address
	Exists   bool
	Balance  uint64
	Status   int
	HasKey   bool
	VLV      uint64
	LastSeen uint64
	Eligible bool
	Stake    uint64 // agreement stake at the look-back round (genesis): balance if Online then
	Match    bool   // challenge population: the address shares the challenge's leading bits
}

type c27pop struct {
	name    string
	r       uint64
	cands   []c27acct // enumerated candidates
	fillExp []c27acct // justified expired fillers
	fillAbs []c27acct // justified absent fillers (long population only)
	total   uint64
	chRound uint64 // round of the heartbeat challenge that is being enforced at round r (0: none)
	gb      bookkeeping.GenesisBalances
	funder  basics.Address
	l       *Ledger
	base    bookkeeping.Block // generated block for round r
	err     error
	anchor  *c27acct // heavy online account that is never a candidate (challenge population)
}

func c27addr(tag byte, i int) basics.Address {
	var a basics.Address
	a[0], a[1], a[2], a[3] = 0xc2, 0x70+tag, byte(i), byte(i>>8)
	a[31] = 1
	return a
}

func c27genesisData(a c27acct, lastHeartbeatSlot bool) basics.AccountData {
	ad := basics.AccountData{MicroAlgos: basics.MicroAlgos{Raw: a.Balance}, IncentiveEligible: a.Eligible}
	switch a.Status {
	case c27Online:
		ad.Status = basics.Online
	default:
		ad.Status = basics.Offline
	}
	if a.HasKey {
		ad.VoteID = crypto.OneTimeSignatureVerifier{1, a.Addr[2]}
		ad.SelectionID = crypto.VRFVerifier{2, a.Addr[2]}
		ad.StateProofID = merklesignature.Commitment{3, a.Addr[2]}
		ad.VoteKeyDilution = 1000
		ad.VoteLastValid = basics.Round(a.VLV)
	}
	// last seen = max(LastProposed, LastHeartbeat): put it in one, something smaller in the other
	other := uint64(0)
	if a.LastSeen > 1 {
		other = a.LastSeen - 1
	}
	if lastHeartbeatSlot {
		ad.LastHeartbeat, ad.LastProposed = basics.Round(a.LastSeen), basics.Round(other)
	} else {
		ad.LastProposed, ad.LastHeartbeat = basics.Round(a.LastSeen), basics.Round(other)
	}
	return ad
}

const (
	c27tiny  = 1000
	c27third = 1_000_000_000_000
	c27most  = 2_000_000_000_000
)

// c27makePop builds population j (harness facts only; the ledger is built by setup).
func c27makePop(j int, r uint64, dom []c27attr, shift int) *c27pop {
	p := &c27pop{name: fmt.Sprintf("pop%02d-s%d", j, shift), r: r}
	stakes := [3]uint64{c27tiny, c27third, c27most}
	names := [3]string{"tiny", "third", "most"}
	attrs := [3]c27attr{}
	for k := 0; k < 3; k++ {
		attrs[k] = dom[(j+shift*k)%len(dom)]
		if attrs[k].Status == c27Online {
			p.total += stakes[k]
		}
	}
	for k := 0; k < 3; k++ {
		at := attrs[k]
		a := c27acct{Name: names[k], Addr: c27addr(1, k), Exists: true, Balance: stakes[k], Status: at.Status, Eligible: at.Eligible}
		a.HasKey = at.Status != c27Offline
		if a.HasKey {
			a.VLV = [4]uint64{r - 1, r, r + 1, 0}[at.VlvSel]
		}
		if at.Status == c27Online {
			a.Stake = a.Balance
		}
		// threshold: absent iff lastSeen + lag < r, lag = floor(20*total/balance)
		lag := new(big.Int).Mul(big.NewInt(20), new(big.Int).SetUint64(p.total))
		lag.Div(lag, new(big.Int).SetUint64(a.Balance))
		switch at.SeenSel {
		case 0:
			a.LastSeen = 0
		default:
			d := int64(at.SeenSel) - 2 // -1, 0, +1
			v := new(big.Int).Sub(new(big.Int).SetUint64(r), lag)
			v.Add(v, big.NewInt(d))
			if v.Sign() <= 0 || !v.IsUint64() {
				a.LastSeen = uint64(at.SeenSel) // 1,2,3: long ago, still positive
			} else {
				a.LastSeen = v.Uint64()
			}
		}
		p.cands = append(p.cands, a)
	}
	p.cands = append(p.cands, c27acct{Name: "ghost", Addr: c27addr(2, 0)})
	for i := 0; i < 33; i++ {
		p.fillExp = append(p.fillExp, c27acct{Name: fmt.Sprintf("fillE%d", i), Addr: c27addr(3, i), Exists: true, Balance: 1_000_000, Status: c27Suspended, HasKey: true, VLV: 1})
	}
	p.finishGenesis(j%2 == 0)
	return p
}

// c27makeLongPop: 34 equal online eligible accounts, all absent at round r (lag = 680).
func c27makeLongPop(r uint64) *c27pop {
	p := &c27pop{name: "long", r: r}
	const bf = 1_000_000_000
	for i := 0; i < 34; i++ {
		p.fillAbs = append(p.fillAbs, c27acct{Name: fmt.Sprintf("fillA%d", i), Addr: c27addr(4, i), Exists: true, Balance: bf, Status: c27Online, HasKey: true,
			VLV: 1_000_000, LastSeen: 1, Eligible: true, Stake: bf})
		p.total += bf
	}
	for i := 0; i < 33; i++ {
		p.fillExp = append(p.fillExp, c27acct{Name: fmt.Sprintf("fillE%d", i), Addr: c27addr(3, i), Exists: true, Balance: 1_000_000, Status: c27Suspended, HasKey: true, VLV: 1})
	}
	p.finishGenesis(true)
	return p
}

// c27makeChallengePop: round r lies in the enforcement window of the heartbeat challenge
// issued at chRound (chRound+grace < r <= chRound+2*grace). The documented rule: an
// account whose address shares the challenge's leading ChallengeBits bits with the seed
// of block chRound and that has not been seen since chRound may be marked absent - if it
// is Online and IncentiveEligible like every absent entry. A heavy "anchor" account makes
// every allowable lag > r, so nobody is absent by the stake-proportional rule here.
func c27makeChallengePop(r, chRound uint64, bits int) *c27pop {
	p := &c27pop{name: "challenge", r: r, chRound: chRound}
	const bf = 1_000_000_000
	p.funder = c27addr(5, 0) // its address is the seed of every block the harness builds
	i := 0
	for _, match := range []bool{true, false} {
		for _, seen := range []uint64{1, chRound - 1, chRound} {
			for _, elig := range []bool{true, false} {
				for _, st := range []int{c27Online, c27Suspended} {
					a := c27acct{Name: fmt.Sprintf("ch%d{match=%v seen=%d elig=%v status=%d}", i, match, seen, elig, st), Addr: c27addr(8, i), Exists: true,
						Balance: bf, Status: st, HasKey: true, VLV: 1_000_000, LastSeen: seen, Eligible: elig}
					if !match {
						a.Addr[0] ^= 0x80 // differs from the seed in the very first bit
					}
					// the harness' own comparison of the leading bits (bits <= 8 here)
					a.Match = (a.Addr[0]^p.funder[0])>>(8-uint(bits)) == 0
					if a.Match != match {
						panic("harness: challenge address construction")
					}
					if st == c27Online {
						a.Stake = bf
						p.total += bf
					}
					p.cands = append(p.cands, a)
					i++
				}
			}
		}
	}
	anchor := c27acct{Name: "anchor", Addr: c27addr(9, 0), Exists: true, Balance: 100 * bf, Status: c27Online, HasKey: true, VLV: 1_000_000, LastSeen: r - 5, Stake: 100 * bf}
	anchor.Addr[0] ^= 0x80
	p.fillAbs = nil
	p.total += anchor.Balance
	p.anchor = &anchor
	for i := 0; i < 33; i++ {
		p.fillExp = append(p.fillExp, c27acct{Name: fmt.Sprintf("fillE%d", i), Addr: c27addr(3, i), Exists: true, Balance: 1_000_000, Status: c27Suspended, HasKey: true, VLV: 1})
	}
	p.finishGenesis(true)
	return p
}

func (p *c27pop) finishGenesis(hbSlot bool) {
	accts := map[basics.Address]basics.AccountData{}
	for _, group := range [][]c27acct{p.cands, p.fillExp, p.fillAbs} {
		for _, a := range group {
			if a.Exists {
				accts[a.Addr] = c27genesisData(a, hbSlot)
			}
		}
	}
	if p.anchor != nil {
		accts[p.anchor.Addr] = c27genesisData(*p.anchor, hbSlot)
	}
	p.funder = c27addr(5, 0)
	accts[p.funder] = basics.AccountData{MicroAlgos: basics.MicroAlgos{Raw: 1_000_000_000_000}, Status: basics.Offline}
	sink, pool := c27addr(6, 0), c27addr(7, 0)
	accts[sink] = basics.AccountData{MicroAlgos: basics.MicroAlgos{Raw: 1_000_000_000_000}, Status: basics.NotParticipating}
	accts[pool] = basics.AccountData{MicroAlgos: basics.MicroAlgos{Raw: 100_000}, Status: basics.NotParticipating} // rewards off
	p.gb = bookkeeping.MakeTimestampedGenesisBalances(accts, sink, pool, 1_700_000_000)
}

func c27startEval(l *Ledger) (*eval.BlockEvaluator, error) {
	hdr, err := l.BlockHdr(l.Latest())
	if err != nil {
		return nil, err
	}
	next := bookkeeping.MakeBlock(hdr).BlockHeader
	next.TimeStamp = hdr.TimeStamp + 1
	return eval.StartEvaluator(l, next, eval.EvaluatorOptions{Generate: true, Validate: true})
}

// setup opens the ledger and advances it to round r-1 with empty blocks whose
// participation-update lists are cleared (so the population stays as designed).
func (p *c27pop) setup(dir string, cv protocol.ConsensusVersion) error {
	var genHash crypto.Digest
	copy(genHash[:], "verif-c27-genesis-hash")
	genBlock, err := bookkeeping.MakeGenesisBlock(cv, p.gb, "verif", genHash)
	if err != nil {
		return err
	}
	cfg := config.GetDefaultLocal()
	cfg.Archival = true
	cfg.DisableLedgerLRUCache = true // no large preallocated caches (supported configuration)
	cfg.TxPoolSize = 64
	cfg.VerifiedTranscationsCacheSize = 64
	log := logging.NewLogger()
	log.SetLevel(logging.Error)
	l, err := OpenLedger(log, filepath.Join(dir, p.name), true, ledgercore.InitState{Block: genBlock, Accounts: p.gb.Balances, GenesisHash: genHash}, cfg)
	if err != nil {
		return err
	}
	p.l = l
	for uint64(l.Latest())+1 < p.r {
		ev, err := c27startEval(l)
		if err != nil {
			return err
		}
		ub, err := ev.GenerateBlock(nil)
		if err != nil {
			return err
		}
		blk := ub.FinishBlock(committee.Seed(p.funder), p.funder, true)
		blk.ParticipationUpdates = bookkeeping.ParticipationUpdates{}
		if err := l.AddBlock(blk, agreement.Certificate{}); err != nil {
			return fmt.Errorf("setup block %d: %w", blk.Round(), err)
		}
	}
	l.WaitForCommit(l.Latest())
	ev, err := c27startEval(l)
	if err != nil {
		return err
	}
	ub, err := ev.GenerateBlock(nil)
	if err != nil {
		return err
	}
	p.base = ub.FinishBlock(committee.Seed(p.funder), p.funder, true)
	if uint64(p.base.Round()) != p.r {
		return fmt.Errorf("base block has round %d, want %d", p.base.Round(), p.r)
	}
	return nil
}

// ---- oracle

func (p *c27pop) expiredOK(a c27acct) bool {
	return a.Exists && a.HasKey && a.VLV < p.r
}

func (p *c27pop) absentOK(a c27acct) bool {
	if !a.Exists || a.Status != c27Online || !a.Eligible || a.Balance == 0 {
		return false
	}
	if a.LastSeen == 0 || a.Stake == 0 || a.LastSeen >= p.r {
		return false
	}
	lhs := new(big.Int).Mul(big.NewInt(20), new(big.Int).SetUint64(p.total))
	rhs := new(big.Int).Mul(new(big.Int).SetUint64(p.r-a.LastSeen), new(big.Int).SetUint64(a.Stake))
	return lhs.Cmp(rhs) < 0
}

// challengeOK: the second documented justification, only in the challenge population.
func (p *c27pop) challengeOK(a c27acct) bool {
	return p.chRound != 0 && a.Exists && a.Status == c27Online && a.Eligible && a.Balance != 0 && a.Match && a.LastSeen < p.chRound
}

type c27case struct {
	Pop     string
	Expired []string
	Absent  []string
}

const (
	c27wantReject = iota
	c27wantAccept
	c27wantEither
)

func (p *c27pop) judge(exp, abs []c27acct, maxExp, maxAbs int) (int, string) {
	if len(exp) > maxExp || len(abs) > maxAbs {
		return c27wantReject, "over-long list"
	}
	seen := map[basics.Address]bool{}
	for _, a := range exp {
		if seen[a.Addr] {
			return c27wantReject, "duplicate in expired"
		}
		seen[a.Addr] = true
	}
	seenA := map[basics.Address]bool{}
	both := false
	for _, a := range abs {
		if seenA[a.Addr] {
			return c27wantReject, "duplicate in absent"
		}
		seenA[a.Addr] = true
		if seen[a.Addr] {
			both = true
		}
	}
	for _, a := range exp {
		if !p.expiredOK(a) {
			return c27wantReject, "unjustified expired entry"
		}
	}
	challenged := false
	for _, a := range abs {
		if !p.absentOK(a) {
			if p.challengeOK(a) {
				challenged = true
				continue
			}
			return c27wantReject, "unjustified absent entry"
		}
	}
	if both {
		return c27wantEither, "justified account in both lists"
	}
	if len(exp)+len(abs) == 0 {
		return c27wantAccept, "empty lists"
	}
	if challenged {
		return c27wantAccept, "justified (failed challenge, online and eligible)"
	}
	return c27wantAccept, "all entries justified"
}

type c27tally struct {
	mu sync.Mutex
	m  map[string]int
}

func (c *c27tally) add(r *ve.Run, k string) {
	r.Class(k)
	c.mu.Lock()
	c.m[k]++
	c.mu.Unlock()
}

func c27names(l []c27acct) []string {
	out := make([]string, len(l))
	for i, a := range l {
		out[i] = a.Name
	}
	return out
}

func (p *c27pop) run(r *ve.Run, tally *c27tally, exp, abs []c27acct, proto config.ConsensusParams) {
	blk := p.base
	blk.ParticipationUpdates = bookkeeping.ParticipationUpdates{}
	for _, a := range exp {
		blk.ParticipationUpdates.ExpiredParticipationAccounts = append(blk.ParticipationUpdates.ExpiredParticipationAccounts, a.Addr)
	}
	for _, a := range abs {
		blk.ParticipationUpdates.AbsentParticipationAccounts = append(blk.ParticipationUpdates.AbsentParticipationAccounts, a.Addr)
	}
	cs := c27case{Pop: p.name, Expired: c27names(exp), Absent: c27names(abs)}
	_, err := eval.Eval(context.Background(), p.l, blk, true, verify.GetMockedCache(true), nil, nil)
	r.Eval()
	var pe ledgercore.EvalPanicError
	if errors.As(err, &pe) {
		r.Report("C27:panic", fmt.Sprintf("validation of %+v panicked: %v", cs, err), cs)
		return
	}
	want, why := p.judge(exp, abs, proto.MaxProposedExpiredOnlineAccounts, proto.Payouts.MaxMarkAbsent)
	accepted := err == nil
	tally.add(r, fmt.Sprintf("%s/%v", why, accepted))
	describe := func() string {
		var b strings.Builder
		for _, a := range append(append([]c27acct{}, exp...), abs...) {
			fmt.Fprintf(&b, " %s{%+v expiredOK=%v absentOK=%v}", a.Name, a, p.expiredOK(a), p.absentOK(a))
		}
		return fmt.Sprintf("round %d, total online stake %d:%s", p.r, p.total, b.String())
	}
	switch {
	case want == c27wantReject && accepted:
		r.Report("C27:unjustified-list-accepted", fmt.Sprintf("block with expired=%v absent=%v was accepted although: %s (%s)", cs.Expired, cs.Absent, why, describe()), cs)
	case want == c27wantAccept && !accepted:
		r.Report("C27:justified-list-rejected", fmt.Sprintf("block with expired=%v absent=%v was rejected (%v) although %s (%s)", cs.Expired, cs.Absent, err, why, describe()), cs)
	}
}

func TestVerif_C27(t *testing.T) {
	deadlock.Opts.Disable = true // harness-only: lock-order bookkeeping dominates the run time otherwise
	defer debug.SetGCPercent(debug.SetGCPercent(400))
	r := ve.NewRun("C27", "exploration")
	dir := ve.ScratchDir("c27")
	defer os.RemoveAll(dir)

	cv := protocol.ConsensusCurrentVersion
	proto := config.Consensus[cv]
	if !proto.Payouts.Enabled || proto.Payouts.ChallengeInterval < 800 {
		t.Fatalf("harness: protocol assumptions (payouts, challenge interval) do not hold")
	}
	const round = 70
	dom := c27domain()
	var pops []*c27pop
	shifts := ve.Pick([]int{24}, []int{24, 8, 55}) // slot k of population j gets attribute combination (j + shift*k) mod 72
	for _, sh := range shifts {
		for j := 0; j < len(dom); j++ {
			pops = append(pops, c27makePop(j, round, dom, sh))
		}
	}
	long := c27makeLongPop(700)
	pops = append(pops, long)
	// enforcement window of the challenge issued at round 1000: rounds 1201..1400
	chRound := uint64(proto.Payouts.ChallengeInterval)
	pops = append(pops, c27makeChallengePop(chRound+uint64(proto.Payouts.ChallengeGracePeriod)+1, chRound, proto.Payouts.ChallengeBits))
	defer func() {
		for _, p := range pops {
			if p.l != nil {
				p.l.Close()
			}
		}
	}()
	r.ParallelFor(len(pops), func(i int) { pops[i].err = pops[i].setup(dir, cv) })
	ready := pops[:0:0]
	for _, p := range pops {
		if p.err != nil {
			t.Fatalf("harness: setup of %s: %v", p.name, p.err)
		}
		if p.l == nil || p.base.Round() == 0 {
			continue // internal budget ran out during setup: the run is already marked capped
		}
		ready = append(ready, p)
		// the harness' idea of the total online stake must be the ledger's (trusted input of the rule)
		brnd := basics.Round(0)
		if p.r > 320 {
			brnd = basics.Round(p.r - 320)
		}
		tot, err := p.l.OnlineCirculation(brnd, basics.Round(p.r))
		if err != nil || tot.Raw != p.total {
			t.Fatalf("harness: %s: ledger reports online circulation %d (err %v), harness computed %d", p.name, tot.Raw, err, p.total)
		}
	}

	all := pops
	pops = ready
	defer func() { pops = all }() // close every ledger that was opened
	tally := &c27tally{m: map[string]int{}}

	// 1. the generator's own lists
	for _, p := range pops {
		byAddr := map[basics.Address]c27acct{}
		for _, group := range [][]c27acct{p.cands, p.fillExp, p.fillAbs} {
			for _, a := range group {
				byAddr[a.Addr] = a
			}
		}
		var exp, abs []c27acct
		ok := true
		for _, ad := range p.base.ParticipationUpdates.ExpiredParticipationAccounts {
			a, known := byAddr[ad]
			ok = ok && known
			exp = append(exp, a)
		}
		for _, ad := range p.base.ParticipationUpdates.AbsentParticipationAccounts {
			a, known := byAddr[ad]
			ok = ok && known
			abs = append(abs, a)
		}
		if !ok {
			r.Report("C27:generator-unknown-account", fmt.Sprintf("%s: generator lists an account outside the population: %+v", p.name, p.base.ParticipationUpdates), nil)
			continue
		}
		if want, why := p.judge(exp, abs, proto.MaxProposedExpiredOnlineAccounts, proto.Payouts.MaxMarkAbsent); want == c27wantReject {
			r.Report("C27:generator-unjustified", fmt.Sprintf("%s: generator proposes expired=%v absent=%v: %s", p.name, c27names(exp), c27names(abs), why), c27case{p.name, c27names(exp), c27names(abs)})
			continue
		}
		p.run(r, tally, exp, abs, proto)
	}

	// 2. every pair of subsets of the candidates, duplicates, length limits
	type job struct {
		p        *c27pop
		exp, abs []c27acct
	}
	var jobs []job
	for _, p := range pops {
		n := len(p.cands)
		if p.chRound != 0 {
			// challenge population: every single candidate and every pair in the absent list,
			// every single candidate in the expired list, and all challenge-justified ones together
			var all []c27acct
			for i, a := range p.cands {
				jobs = append(jobs, job{p, nil, []c27acct{a}}, job{p, []c27acct{a}, nil})
				for _, b := range p.cands[i+1:] {
					jobs = append(jobs, job{p, nil, []c27acct{a, b}})
				}
				if p.challengeOK(a) {
					all = append(all, a)
				}
			}
			jobs = append(jobs, job{p, nil, all}, job{p, nil, append(append([]c27acct{}, all...), all[0])})
		} else if n > 0 {
			for em := 0; em < 1<<n; em++ {
				for am := 0; am < 1<<n; am++ {
					var exp, abs []c27acct
					for i, a := range p.cands {
						if em&(1<<i) != 0 {
							exp = append(exp, a)
						}
						if am&(1<<i) != 0 {
							abs = append(abs, a)
						}
					}
					jobs = append(jobs, job{p, exp, abs})
				}
			}
			for _, a := range p.cands {
				jobs = append(jobs, job{p, []c27acct{a, a}, nil}, job{p, nil, []c27acct{a, a}})
			}
		}
		jobs = append(jobs, job{p, p.fillExp[:32], nil}, job{p, p.fillExp[:33], nil},
			job{p, append(append([]c27acct{}, p.fillExp[:31]...), p.fillExp[0]), nil})
		if len(p.fillAbs) > 0 {
			jobs = append(jobs, job{p, nil, p.fillAbs[:32]}, job{p, nil, p.fillAbs[:33]}, job{p, p.fillExp[:32], p.fillAbs[:32]},
				job{p, nil, append(append([]c27acct{}, p.fillAbs[:31]...), p.fillAbs[3])}, job{p, nil, p.fillAbs[33:]})
		}
	}
	r.ParallelFor(len(jobs), func(i int) { jobs[i].p.run(r, tally, jobs[i].exp, jobs[i].abs, proto) })

	keys := make([]string, 0, len(tally.m))
	for k := range tally.m {
		keys = append(keys, k)
	}
	sort.Strings(keys)
	r.Set("outcome_classes", tally.m)
	r.Note("%d populations (%d candidate populations at round %d + 1 long population at round 700 + 1 challenge-window population at round 1201), %d list placements", len(pops), len(pops)-2, round, len(jobs))
	if len(pops) > 5 {
		r.Sample(c27case{Pop: pops[5].name, Expired: []string{"tiny"}, Absent: []string{"most"}})
		r.Sample(pops[5].cands)
	}
	r.Assume("no heartbeat challenge is active at rounds 70 and 700 (< ChallengeInterval); the challenge path is exercised only by the dedicated population at round 1201, whose block seeds are all the funder address (the harness finishes every block with that seed)")
	r.Assume("agreement stake of a candidate = its genesis balance if Online at genesis (rounds < 320 look back to genesis); total online stake = sum over accounts Online at genesis, cross-checked once per population against Ledger.OnlineCirculation")
	r.Assume("account attributes are installed directly in the genesis allocation; the blocks leading to round r-1 carry empty participation-update lists")
	n := r.Finish(ve.Coverage{Rule: fmt.Sprintf("%d", len(all)-2) + " genesis populations of 3 candidates (stake tiny/third/most; status x VoteLastValid {r-1,r,r+1,0} x last-seen {0, threshold-1, threshold, threshold+1} x eligible, diagonal assignment so that every (stake, attribute) pair occurs) + ghost + expired fillers: every pair of subsets of the 4 candidates as (expired, absent) lists, duplicated entries, 32/33-entry lists, in an otherwise valid generated block re-evaluated with validation; plus one population with 34 absent accounts at round 700 for the absent-list limit; plus one population of 24 accounts (address matches the challenge bits or not x last seen at 1 / 999 / 1000 x eligible x Online/Suspended) at round 1201 inside a heartbeat-challenge enforcement window (singletons and pairs; justified iff failed challenge AND online AND eligible); oracle = harness big.Int evaluation of the expiry rule and of 20*total < (r-lastSeen)*stake", Exhaustive: true})
	if n > 0 {
		t.Fatal("violations")
	}
}
