package basics

// Plain reproduction (no explorer) of the C41 finding: the key-length bound declared for the
// map types TealKeyValue and StateDelta
//     //msgp:allocbound TealKeyValue bounds.EncodedMaxKeyValueEntries,bounds.MaxAppBytesKeyLen
//     //msgp:allocbound StateDelta   bounds.MaxStateDeltaKeys,bounds.MaxAppBytesKeyLen
// is used by the generated TealKeyValueMaxSize()/StateDeltaMaxSize() but is NOT enforced by
// the generated UnmarshalMsg: a key of any length is accepted (ValueDelta.Bytes, by contrast, is
// checked against its declared MaxAppBytesValueLen).

import (
	"strings"
	"testing"

	"github.com/algorand/go-algorand/config/bounds"
	"github.com/algorand/go-algorand/protocol"
)

func TestReproC41MapKeyBound(t *testing.T) {
	longKey := strings.Repeat("k", bounds.MaxAppBytesKeyLen+1) // 65 bytes; 10 000 works just as well
	kv := TealKeyValue{longKey: TealValue{Type: TealUintType, Uint: 1}}
	enc := protocol.Encode(&kv)

	var out TealKeyValue
	err := protocol.Decode(enc, &out)
	if err == nil {
		t.Errorf("TealKeyValue with a %d-byte key decoded without error (declared key bound %d); encoded size %d > TealKeyValueMaxSize-per-entry assumption",
			len(longKey), bounds.MaxAppBytesKeyLen, len(enc))
	}

	sd := StateDelta{strings.Repeat("k", 10000): ValueDelta{Action: SetUintAction, Uint: 1}}
	var sdOut StateDelta
	if err := protocol.Decode(protocol.Encode(&sd), &sdOut); err == nil {
		t.Errorf("StateDelta with a 10000-byte key decoded without error (declared key bound %d)", bounds.MaxAppBytesKeyLen)
	}

	// for contrast: the declared VALUE bound of ValueDelta.Bytes is enforced
	vd := ValueDelta{Action: SetBytesAction, Bytes: strings.Repeat("v", bounds.MaxAppBytesValueLen+1)}
	var vdOut ValueDelta
	if err := protocol.Decode(protocol.Encode(&vd), &vdOut); err == nil {
		t.Errorf("unexpected: over-long ValueDelta.Bytes accepted")
	}
}
