package verify

// C28 (part p) — a payset containing a forged signature is never accepted by PaysetGroups, whatever
// workset it falls into (seeded change C28-B: the dispatch loop may exit before the last workset is
// queued).
//
// What decides whether the seeded defect manifests is NOT a thread interleaving that a scheduler
// could enumerate: with the previous worksets already finished, the dispatcher's `select` has two
// ready cases (a free slot to enqueue the last workset / a result to collect) and the Go runtime
// picks one pseudo-randomly. That choice cannot be steered from outside (it is not a lock, channel
// or hook point, and E-SCHED's bubble does not control it), so it cannot be enumerated. What CAN be
// made deterministic is the other precondition — "all earlier worksets complete before the
// dispatcher queues the last one" — by a harness-owned BacklogPool that runs each task inside
// EnqueueBacklog (an infinitely fast pool; a legal implementation of the interface). Under that pool
// each run with k worksets flips the runtime's coin k-1 times; every enumerated case is therefore
// REPEATED (64x quick, 256x thorough). On a correct tree every repetition must reject (no
// randomness in the verdict: zero false alarms); on a tree with the seeded defect a 2-workset case
// escapes detection with probability 2^-64.
//
// Enumerated: payset sizes n in {33, 34, 48, 64, 65, 66, 97} single-transaction groups (2..4
// worksets of <= 32), forged transaction (signature by a stranger) at every boundary position:
// first/last index of every workset; pools: synchronous harness pool (x repetitions) and the real
// execpool backlog (x4). Control: the same paysets without a forgery must be accepted.
// Oracle: PaysetGroups returns an error iff the payset contains a forged signature.
//
// Unexported identifiers used: none.

import (
	"context"
	"fmt"
	"testing"

	"github.com/algorand/go-algorand/data/transactions"
	"github.com/algorand/go-algorand/data/transactions/logic"
	"github.com/algorand/go-algorand/protocol"
	"github.com/algorand/go-algorand/util/execpool"
	ve "github.com/algorand/go-algorand/verifeng"
)

// c28syncPool completes every task before EnqueueBacklog returns.
type c28syncPool struct{}

func (c28syncPool) Enqueue(ctx context.Context, t execpool.ExecFunc, arg any, i execpool.Priority, out chan any) error {
	res := t(arg)
	if out != nil {
		out <- res
	}
	return nil
}
func (p c28syncPool) EnqueueBacklog(ctx context.Context, t execpool.ExecFunc, arg any, out chan any) error {
	return p.Enqueue(ctx, t, arg, execpool.LowPriority, out)
}
func (c28syncPool) GetOwner() any                      { return nil }
func (c28syncPool) Shutdown()                          {}
func (c28syncPool) GetParallelism() int                { return 1 }
func (c28syncPool) BufferSize() (length, capacity int) { return 0, 0 }

func TestVerif_C28_p(t *testing.T) {
	r := ve.NewRun("C28", "exploration")
	r.Assume("part p: the Go runtime's choice among several ready select cases in PaysetGroups cannot be enumerated; each case is repeated (64x quick / 256x thorough) under a pool that completes tasks synchronously. The verdict on a correct tree does not depend on that choice.")
	e := c28newEnv(protocol.ConsensusCurrentVersion, "current")
	const maxN = 97
	good := make([]transactions.SignedTxn, maxN)
	bad := make([]transactions.SignedTxn, maxN)
	for i := 0; i < maxN; i++ {
		tx := e.txn(c28addr(e.S))
		tx.Note = []byte(fmt.Sprintf("c28p-%03d", i))
		good[i] = transactions.SignedTxn{Txn: tx, Sig: e.S.Sign(tx)}
		bad[i] = transactions.SignedTxn{Txn: tx, Sig: e.X.Sign(tx)} // a stranger's signature
	}
	type pcase struct {
		N, Forged int // Forged < 0: control
		Pool      string
		Reps      int
	}
	reps := ve.Pick(64, 256)
	var cases []pcase
	for _, n := range []int{33, 34, 48, 64, 65, 66, 97} {
		pos := map[int]bool{}
		for start := 0; start < n; start += 32 {
			end := start + 31
			if end > n-1 {
				end = n - 1
			}
			pos[start], pos[end] = true, true
		}
		for _, pool := range []string{"sync", "real"} {
			k := reps
			if pool == "real" {
				k = 4
			}
			cases = append(cases, pcase{N: n, Forged: -1, Pool: pool, Reps: k})
			for p := 0; p < n; p++ {
				if pos[p] {
					cases = append(cases, pcase{N: n, Forged: p, Pool: pool, Reps: k})
				}
			}
		}
	}
	real := execpool.MakeBacklog(nil, 0, execpool.LowPriority, nil)
	defer real.Shutdown()
	visited := r.ParallelFor(len(cases), func(i int) {
		c := cases[i]
		payset := make([][]transactions.SignedTxn, c.N)
		for j := 0; j < c.N; j++ {
			st := good[j]
			if j == c.Forged {
				st = bad[j]
			}
			payset[j] = []transactions.SignedTxn{st}
		}
		var pool execpool.BacklogPool = c28syncPool{}
		if c.Pool == "real" {
			pool = real
		}
		accepted := 0
		for k := 0; k < c.Reps; k++ {
			cache := MakeVerifiedTransactionCache(4 * maxN)
			err := PaysetGroups(context.Background(), payset, e.hdr, pool, cache, &logic.NoHeaderLedger{})
			if err == nil {
				accepted++
			}
		}
		r.EvalN(c.Reps)
		want := 0
		if c.Forged < 0 {
			want = c.Reps
		}
		ws := "control"
		if c.Forged >= 0 {
			ws = fmt.Sprintf("forged-in-workset-%d-of-%d", c.Forged/32+1, (c.N+31)/32)
		}
		r.Class(fmt.Sprintf("p/%s/%s/accepted=%v", c.Pool, ws, accepted > 0))
		if i%9 == 0 {
			r.Sample(map[string]any{"part": "p", "n": c.N, "forged_index": c.Forged, "pool": c.Pool, "repetitions": c.Reps, "accepted_runs": accepted})
		}
		if accepted != want {
			r.Report(fmt.Sprintf("C28:payset:forged=%v", c.Forged >= 0),
				fmt.Sprintf("payset of %d single-txn groups, forged signature at index %d (%s), %s pool: PaysetGroups returned nil in %d of %d runs, expected %d", c.N, c.Forged, ws, c.Pool, accepted, c.Reps, want), c)
		}
	})
	cov := ve.Coverage{
		Rule:       fmt.Sprintf("part p: %d payset cases (sizes 33..97 = 2..4 worksets, forged signature at the first/last index of every workset, plus unforged controls) x {synchronous pool x %d repetitions, real backlog pool x 4} through verify.PaysetGroups", len(cases), reps),
		Exhaustive: visited == int64(len(cases)),
	}
	if n := r.Finish(cov); n > 0 {
		t.Fatalf("C28 part p: %d violation(s)", n)
	}
}
