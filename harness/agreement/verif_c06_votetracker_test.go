package agreement

// C06 — Vote counting emits exactly one threshold per step, for the right value.
//
// Engine E-SEQ (explicit-state BFS over operation sequences), two families against one
// plain tally reference:
//   family 1 (this file): the REAL voteTracker, driven through a real stepRouter (so the
//     checkedListener + voteTrackerContract wrapper of production is in place);
//   family 2 (verif_c06_aggregator_test.go): the REAL voteAggregator behind the real router
//     chain, fed with individual voteVerified events AND bundleVerified events (every
//     verifying bundle with <= 1 equivocation pair over the sender/value universe).
//
// Alphabet (12 ops): voteAccepted(sender, value), senders {a,b,c,d}, values {x,y,z}.
//   The votes are REAL votes (makeVote + unauthenticatedVote.verify: VRF credential,
//   one-time signature, sortition) under a private consensus version whose committee
//   size equals the total online stake, so the credential weight of an account is exactly
//   its stake (sortition with p = 1). Two weight variants:
//     w1122: stakes 1,1,2,2 (committee 6), threshold 4
//     w1111: stakes 1,1,1,1 (committee 4), threshold 3
//     w11122 (thorough tier only): five senders a..e, stakes 1,1,1,2,2 (committee 7), threshold 5
//   Steps soft, cert, next (one exploration per variant x step = 6 explorations).
//   Values: x, y have different block digests; z has the SAME block digest as x but a
//   different encoding digest (values are whole proposal-values, not digests); in step
//   next the value y is bottom.
// Bound: every sequence of length <= 7 (quick) / 9 (thorough), including repeats
//   (duplicates) and second/third values from the same sender (equivocation, votes of a
//   known equivocator). States are merged by a key made of the complete tracker state
//   (Voters, Equivocators incl. the stored pair, Counts incl. per-value voter sets,
//   EquivocatorsCount), the contract state and the reference tally.
// Pruned BY THE REFERENCE (never by catching panics): an operation after which the
//   equivocators' weight alone reaches the threshold, or after which two values both
//   reach it. These violate the protocol's honest-majority assumption; the code Panicf's
//   there by design. A panic on any non-pruned sequence is a violation.
// Oracle (from the property statement): reference tally sender -> first value |
//   equivocator; count(v) = sum w(first-voters of v) + sum w(equivocators).
//   * the tracker returns a non-empty thresholdEvent exactly on the first event after
//     which some count reaches the threshold, and an empty one on every other event;
//   * its type is soft/cert/nextThreshold according to the step, its proposal is the value
//     whose count reached the threshold, round/period/step/proto are those of the votes;
//   * duplicates and votes of known equivocators leave the whole tracker state unchanged;
//   * tracker.count(v) equals the reference count after every event;
//   * the Bundle has distinct voters; plain entries are accepted votes their senders cast
//     for that value; equivocation entries are the two accepted votes of a reference
//     equivocator; the total (reference) weight reaches the threshold; and the
//     bundle passes the real unauthenticatedBundle.verify against the ledger.
// Not covered: more than 4 senders / 3 values, weights other than the two variants,
//   steps beyond next (all "next" steps share the code path), the voteFilterRequest and
//   dumpVotesRequest queries, the (pruned) behaviour outside the honest-majority assumption.
// Unexported identifiers used: stepRouter(.dispatch,.VoteTracker,.VoteTrackerContract),
//   voteTracker fields and count(), tracer, serviceLogger, player, voteAcceptedEvent,
//   thresholdEvent, makeVote, unauthenticatedVote.verify, unauthenticatedBundle.verify,
//   makeTestLedgerWithConsensusVersion (upstream test helper), proposalValue, rawVote.
// Mutants (bin/mut, quick tier), all DETECTED:
//   1. voteTracker.go: `if len(tracker.Voters) == 0 {` -> `if true {` (return before
//      re-checking the threshold after an equivocation)       -> C06:missing-threshold
//   2. voteTracker.go: overBefore re-computed after the update -> C06:missing-threshold
//   3. voteTracker.go: count() drops EquivocatorsCount         -> C06:count (and missing-threshold)
//   4. voteTracker.go: `len(tracker.Voters) == 0` -> `<= 1` (own; the equivocation of c in
//      c:y d:x c:x completes x's quorum while d is the only plain voter) -> C06:missing-threshold
//   5. voteTracker.go: signatures of the stored equivocation pair swapped (own; the emitted
//      bundle no longer verifies)                              -> C06:bundle-vote-content
//   6. voteTracker.go: `if overBefore || !overAfter` -> overBefore ignored (threshold
//      emitted again)                                          -> C06:panic (contract "emitted twice")
//   7. voteTracker.go: the equivocator's weight is not subtracted from its first value
//      (own)                                                   -> C06:panic (makeBundle: not enough votes) / C06:count
//   8. seeded /verif/seeded/C06-B: vote.go equivocationVote.v1() returns Sigs[0] (only
//      visible when pairs arrive inside a bundle)              -> family 2, C06:bundle-vote-content
//      (the emitted bundle fails the real unauthenticatedBundle.verify)
//   9. voteAggregator.go: stop replaying a bundle at the first threshold -> family 2, C06:count
//  10. voteAggregator.go: second half of a pair replayed as v0() again -> family 2, C06:missing-threshold

import (
	"context"
	"fmt"
	"io"
	"sort"
	"strings"
	"sync"
	"testing"

	"github.com/sirupsen/logrus"

	"github.com/algorand/go-algorand/config"
	"github.com/algorand/go-algorand/crypto"
	"github.com/algorand/go-algorand/data/basics"
	"github.com/algorand/go-algorand/logging"
	"github.com/algorand/go-algorand/protocol"
	ve "github.com/algorand/go-algorand/verifeng"
)

const (
	c06NSenders = 5 // capacity; a variant uses its first n senders
	c06NValues  = 3
)

type c06Variant struct {
	name    string
	n       int // senders
	weights [c06NSenders]uint64
	thr     uint64
}

// c06Env is the immutable environment of one weight variant.
type c06Env struct {
	v       c06Variant
	version protocol.ConsensusVersion
	ledger  Ledger
	rnd     basics.Round // the round all votes are for (ledger.NextRound at setup)
	addrs   [c06NSenders]basics.Address
	// votes[step][sender][value] are real verified votes
	votes map[step]*[c06NSenders][c06NValues]vote
	vals  map[step]*[c06NValues]proposalValue
	avv   *AsyncVoteVerifier
	log   serviceLogger
	bops  map[step][]c06BundleOp // family 2: the bundleVerified alphabet

	memoMu sync.Mutex
	memo   map[string]string // encoded bundle -> "" (verifies) or error text
}

func c06Digest(tag string) crypto.Digest {
	return crypto.Hash([]byte("verif-c06-" + tag))
}

// c06MakeEnv registers the private consensus version and builds ledger, keys and votes.
// Everything is derived from fixed seeds, in a fixed order.
func c06MakeEnv(v c06Variant, steps []step) (*c06Env, error) {
	env := &c06Env{v: v, version: protocol.ConsensusVersion("verif-c06-" + v.name), memo: map[string]string{}}
	params := config.Consensus[protocol.ConsensusCurrentVersion]
	var total uint64
	for _, w := range v.weights {
		total += w
	}
	params.NumProposers = total
	params.SoftCommitteeSize, params.SoftCommitteeThreshold = total, v.thr
	params.CertCommitteeSize, params.CertCommitteeThreshold = total, v.thr
	params.NextCommitteeSize, params.NextCommitteeThreshold = total, v.thr
	params.LateCommitteeSize, params.LateCommitteeThreshold = total, v.thr
	params.RedoCommitteeSize, params.RedoCommitteeThreshold = total, v.thr
	params.DownCommitteeSize, params.DownCommitteeThreshold = total, v.thr
	params.ApprovedUpgrades = map[protocol.ConsensusVersion]uint64{}
	config.Consensus[env.version] = params

	state := map[basics.Address]basics.AccountData{}
	vrfs := make([]*crypto.VRFSecrets, c06NSenders)
	ots := make([]crypto.OneTimeSigner, c06NSenders)
	for i := 0; i < v.n; i++ {
		var seed [32]byte
		copy(seed[:], fmt.Sprintf("verif-c06-%s-acct-%d", v.name, i))
		pk, sk := crypto.VrfKeygenFromSeed(seed)
		vrfs[i] = &crypto.VRFSecrets{PK: pk, SK: sk}
		ots[i].OneTimeSignatureSecrets = crypto.GenerateOneTimeSignatureSecretsRNG(0, 2, crypto.MakePRNG(seed[:]))
		env.addrs[i] = basics.Address(crypto.Hash(seed[:]))
		state[env.addrs[i]] = basics.AccountData{
			Status:      basics.Online,
			MicroAlgos:  basics.MicroAlgos{Raw: v.weights[i]},
			SelectionID: pk,
			VoteID:      ots[i].OneTimeSignatureVerifier,
		}
	}
	version := env.version
	env.ledger = makeTestLedgerWithConsensusVersion(state, func(basics.Round) (protocol.ConsensusVersion, error) { return version, nil })

	lg := logging.NewLogger()
	lg.SetOutput(io.Discard)
	lg.SetLevel(logging.Error)
	env.log = serviceLogger{lg}
	env.avv = MakeAsyncVoteVerifier(nil)

	env.votes = map[step]*[c06NSenders][c06NValues]vote{}
	env.vals = map[step]*[c06NValues]proposalValue{}
	rnd := env.ledger.NextRound()
	env.rnd = rnd
	for _, s := range steps {
		x := proposalValue{OriginalPeriod: 0, OriginalProposer: env.addrs[0], BlockDigest: c06Digest("x"), EncodingDigest: c06Digest("x-enc")}
		y := proposalValue{OriginalPeriod: 0, OriginalProposer: env.addrs[1], BlockDigest: c06Digest("y"), EncodingDigest: c06Digest("y-enc")}
		z := x
		z.EncodingDigest = c06Digest("z-enc") // same block digest as x, different value
		if s >= next {
			y = bottom
		}
		vals := &[c06NValues]proposalValue{x, y, z}
		env.vals[s] = vals
		tab := &[c06NSenders][c06NValues]vote{}
		for i := 0; i < v.n; i++ {
			for k := 0; k < c06NValues; k++ {
				rv := rawVote{Sender: env.addrs[i], Round: rnd, Period: 0, Step: s, Proposal: vals[k]}
				uv, err := makeVote(rv, ots[i], vrfs[i], env.ledger)
				if err != nil {
					return nil, fmt.Errorf("makeVote(%s, step %d, sender %d, value %d): %v", v.name, s, i, k, err)
				}
				vt, err := uv.verify(env.ledger)
				if err != nil {
					return nil, fmt.Errorf("verify(%s, step %d, sender %d, value %d): %v", v.name, s, i, k, err)
				}
				if vt.Cred.Weight != v.weights[i] {
					return nil, fmt.Errorf("sortition not deterministic: %s step %d sender %d has weight %d, stake %d", v.name, s, i, vt.Cred.Weight, v.weights[i])
				}
				tab[i][k] = vt
			}
		}
		env.votes[s] = tab
	}
	return env, nil
}

func (env *c06Env) senderIdx(a basics.Address) int {
	for i := range env.addrs {
		if env.addrs[i] == a {
			return i
		}
	}
	return -1
}

func (env *c06Env) valueIdx(s step, p proposalValue) int {
	for k, v := range env.vals[s] {
		if v == p {
			return k
		}
	}
	return -1
}

// verifyBundle runs the real unauthenticatedBundle.verify (memoized on the encoded bundle).
func (env *c06Env) verifyBundle(b unauthenticatedBundle) string {
	key := string(protocol.Encode(&b))
	env.memoMu.Lock()
	res, ok := env.memo[key]
	env.memoMu.Unlock()
	if ok {
		return res
	}
	_, err := b.verify(context.Background(), env.ledger, env.avv)
	res = ""
	if err != nil {
		res = "verify: " + err.Error()
	}
	env.memoMu.Lock()
	env.memo[key] = res
	env.memoMu.Unlock()
	return res
}

// c06Ref is the reference tally.
type c06Ref struct {
	first   [c06NSenders]int8 // -1: has not voted
	second  [c06NSenders]int8 // >= 0: equivocator (second distinct value)
	emitted bool
}

func (r *c06Ref) count(w *[c06NSenders]uint64, v int) uint64 {
	var n uint64
	for i := 0; i < c06NSenders; i++ {
		if r.second[i] >= 0 || (r.first[i] == int8(v)) {
			n += w[i]
		}
	}
	return n
}

func (r *c06Ref) eqWeight(w *[c06NSenders]uint64) uint64 {
	var n uint64
	for i := 0; i < c06NSenders; i++ {
		if r.second[i] >= 0 {
			n += w[i]
		}
	}
	return n
}

type c06Sys struct {
	env  *c06Env
	step step
	sr   *stepRouter // family 1: the tracker directly behind its stepRouter
	root *rootRouter // family 2 (verif_c06_aggregator_test.go): the whole vote-machine chain
	tr   *tracer
	ref  c06Ref
	last string // label of the last observation (evidence only)
}

// stepRouterOf returns the stepRouter holding the explored tracker (nil while the router
// chain of family 2 has not created it yet).
func (y *c06Sys) stepRouterOf() *stepRouter {
	if y.root == nil {
		return y.sr
	}
	rr := y.root.Children[y.env.rnd]
	if rr == nil || rr.Children[0] == nil {
		return nil
	}
	return rr.Children[0].Children[y.step]
}

// c06RefStep is the reference transition for one accepted vote; it reports whether the
// tally changed (false: duplicate or vote of a known equivocator).
func c06RefStep(nr *c06Ref, i, k int) bool {
	switch {
	case nr.second[i] >= 0: // known equivocator: ignored
		return false
	case nr.first[i] < 0:
		nr.first[i] = int8(k)
	case nr.first[i] == int8(k): // duplicate
		return false
	default:
		nr.second[i] = int8(k)
	}
	return true
}

func c06New(env *c06Env, s step) *c06Sys {
	y := &c06Sys{env: env, step: s, sr: new(stepRouter), tr: &tracer{log: env.log}}
	for i := range y.ref.first {
		y.ref.first[i], y.ref.second[i] = -1, -1
	}
	return y
}

// trackerKey is a canonical rendering of the complete real tracker + contract state.
func (y *c06Sys) trackerKey() string {
	var b strings.Builder
	sr := y.stepRouterOf()
	if sr == nil {
		return "-"
	}
	t := &sr.VoteTracker
	name := func(a basics.Address) string {
		if i := y.env.senderIdx(a); i >= 0 {
			return string(rune('a' + i))
		}
		return a.String()
	}
	val := func(p proposalValue) string {
		if k := y.env.valueIdx(y.step, p); k >= 0 {
			return string(rune('x' + k))
		}
		return fmt.Sprintf("%+v", p)
	}
	var parts []string
	for a, v := range t.Voters {
		parts = append(parts, fmt.Sprintf("%s:%s/%d/%s", name(a), val(v.R.Proposal), v.Cred.Weight, name(v.R.Sender)))
	}
	sort.Strings(parts)
	fmt.Fprintf(&b, "V[%s]", strings.Join(parts, ","))
	parts = parts[:0]
	for a, e := range t.Equivocators {
		parts = append(parts, fmt.Sprintf("%s:%s%s/%d/%s", name(a), val(e.Proposals[0]), val(e.Proposals[1]), e.Cred.Weight, name(e.Sender)))
	}
	sort.Strings(parts)
	fmt.Fprintf(&b, "E[%s]%d", strings.Join(parts, ","), t.EquivocatorsCount)
	parts = parts[:0]
	for p, c := range t.Counts {
		var vs []string
		for a, v := range c.Votes {
			vs = append(vs, name(a)+val(v.R.Proposal))
		}
		sort.Strings(vs)
		parts = append(parts, fmt.Sprintf("%s=%d{%s}", val(p), c.Count, strings.Join(vs, "")))
	}
	sort.Strings(parts)
	fmt.Fprintf(&b, "C[%s]", strings.Join(parts, ","))
	c := &sr.VoteTrackerContract
	fmt.Fprintf(&b, "K%v/%v/%d", c.Emitted, c.StepOk, c.Step)
	return b.String()
}

func (y *c06Sys) key() string {
	return fmt.Sprintf("%s|R%v%v%v", y.trackerKey(), y.ref.first, y.ref.second, y.ref.emitted)
}

func (y *c06Sys) anyOver(r *c06Ref) (n int, which int) {
	which = -1
	for v := 0; v < c06NValues; v++ {
		if r.count(&y.env.v.weights, v) >= y.env.v.thr {
			n++
			which = v
		}
	}
	return
}

// c06PanicText renders a recovered panic reproducibly (a logrus entry carries a timestamp).
func c06PanicText(x any) string {
	if ent, ok := x.(*logrus.Entry); ok {
		return ent.Message
	}
	return fmt.Sprint(x)
}

// handle runs the real tracker; a panic is turned into an error text.
func (y *c06Sys) handle(e event) (out event, panicked string) {
	defer func() {
		if x := recover(); x != nil {
			panicked = c06PanicText(x)
		}
	}()
	rnd := y.env.rnd
	out = y.sr.dispatch(y.tr, player{Round: rnd, Period: 0, Step: y.step}, e, voteMachinePeriod, voteMachineStep, rnd, 0, y.step)
	return
}

func (y *c06Sys) apply(op int) (bool, error) {
	env := y.env
	i, k := op/c06NValues, op%c06NValues
	w := &env.v.weights

	// reference transition
	nr := y.ref
	changed := c06RefStep(&nr, i, k)
	// the protocol's assumption, decided by the reference alone
	if nr.eqWeight(w) >= env.v.thr {
		return false, nil
	}
	nOver, which := y.anyOver(&nr)
	if nOver > 1 {
		return false, nil
	}
	expectEmit := !y.ref.emitted && nOver == 1
	if expectEmit {
		nr.emitted = true
	}

	before := ""
	if !changed {
		before = y.trackerKey()
	}
	in := env.votes[y.step][i][k]
	out0, panicked := y.handle(voteAcceptedEvent{Vote: in, Proto: env.version})
	if panicked != "" {
		return true, ve.Violationf("C06:panic", "voteTracker panicked inside the honest-majority assumption: %s", panicked)
	}
	y.ref = nr
	out, ok := out0.(thresholdEvent)
	if !ok {
		return true, ve.Violationf("C06:event-type", "voteTracker returned %T, not a thresholdEvent", out0)
	}
	empty := out.T == none && len(out.Bundle.Votes) == 0 && len(out.Bundle.EquivocationVotes) == 0
	if !expectEmit {
		if !empty {
			if y.ref.emitted {
				return true, ve.Violationf("C06:second-threshold", "threshold event %v for %s emitted although a threshold had already been signalled", out.T, y.valName(out.Proposal))
			}
			return true, ve.Violationf("C06:spurious-threshold", "threshold event %v for %s emitted although no count reaches %d (counts x=%d y=%d z=%d)", out.T, y.valName(out.Proposal), env.v.thr, nr.count(w, 0), nr.count(w, 1), nr.count(w, 2))
		}
		y.last = "none"
	} else {
		if empty {
			return true, ve.Violationf("C06:missing-threshold", "no threshold event although count(%c)=%d reaches %d for the first time", 'x'+which, nr.count(w, which), env.v.thr)
		}
		if err := y.checkThreshold(out, which, in.R); err != nil {
			return true, err
		}
		y.last = fmt.Sprintf("emit-%c-v%d-e%d", 'x'+which, len(out.Bundle.Votes), len(out.Bundle.EquivocationVotes))
	}
	if !changed {
		if after := y.trackerKey(); after != before {
			return true, ve.Violationf("C06:duplicate-changes-state", "a duplicate / a vote of a known equivocator changed the tracker: %s -> %s", before, after)
		}
	}
	for v := 0; v < c06NValues; v++ {
		if got, want := y.sr.VoteTracker.count(env.vals[y.step][v]), nr.count(w, v); got != want {
			return true, ve.Violationf("C06:count", "tracker.count(%c) = %d, reference tally says %d", 'x'+v, got, want)
		}
	}
	return true, nil
}

// checkThreshold checks a non-empty threshold event against the reference: type for the
// step, value, coordinates, and the bundle as a quorum proof.
func (y *c06Sys) checkThreshold(out thresholdEvent, which int, in rawVote) error {
	env := y.env
	want := nextThreshold
	switch y.step {
	case soft:
		want = softThreshold
	case cert:
		want = certThreshold
	}
	if out.T != want {
		return ve.Violationf("C06:threshold-type", "threshold event type %v for step %d, expected %v", out.T, y.step, want)
	}
	if out.Proposal != env.vals[y.step][which] {
		return ve.Violationf("C06:threshold-value", "threshold signalled for %s, but the value reaching the threshold is %c", y.valName(out.Proposal), 'x'+which)
	}
	if out.Round != in.Round || out.Period != in.Period || out.Step != in.Step || out.Proto != env.version {
		return ve.Violationf("C06:threshold-coords", "threshold event carries (%d,%d,%d,%s), votes are for (%d,%d,%d,%s)", out.Round, out.Period, out.Step, out.Proto, in.Round, in.Period, in.Step, env.version)
	}
	return y.checkBundle(out.Bundle, which)
}

func (y *c06Sys) valName(p proposalValue) string {
	if k := y.env.valueIdx(y.step, p); k >= 0 {
		return string(rune('x' + k))
	}
	return fmt.Sprintf("unknown value %+v", p)
}

// checkBundle decides whether b is a valid quorum proof for value `which`.
func (y *c06Sys) checkBundle(b unauthenticatedBundle, which int) error {
	env := y.env
	tab := env.votes[y.step]
	ref := tab[0][which].R
	if b.Round != ref.Round || b.Period != ref.Period || b.Step != ref.Step || b.Proposal != ref.Proposal {
		return ve.Violationf("C06:bundle-header", "bundle header (%d,%d,%d,%s) is not the threshold's (%d,%d,%d,%c)", b.Round, b.Period, b.Step, y.valName(b.Proposal), ref.Round, ref.Period, ref.Step, 'x'+which)
	}
	seen := map[int]bool{}
	var weight uint64
	for _, a := range b.Votes {
		i := env.senderIdx(a.Sender)
		if i < 0 {
			return ve.Violationf("C06:bundle-voter", "bundle contains unknown voter %v", a.Sender)
		}
		if seen[i] {
			return ve.Violationf("C06:bundle-duplicate", "bundle contains voter %c twice", 'a'+i)
		}
		seen[i] = true
		// a plain entry must be a vote the sender really cast for this value. (It may be the
		// vote of a sender who equivocated afterwards: when the quorum completes in the middle
		// of a bundleVerified event, later votes of the same event can still turn a packed
		// voter into an equivocator; the proof stays valid.)
		if y.ref.first[i] != int8(which) && y.ref.second[i] != int8(which) {
			return ve.Violationf("C06:bundle-foreign-vote", "bundle for %c contains a plain vote of %c, who did not vote for it", 'x'+which, 'a'+i)
		}
		if a.Sig != tab[i][which].Sig || a.Cred != tab[i][which].Cred.UnauthenticatedCredential {
			return ve.Violationf("C06:bundle-vote-content", "plain vote of %c in the bundle is not the accepted vote for %c", 'a'+i, 'x'+which)
		}
		weight += env.v.weights[i]
	}
	for _, a := range b.EquivocationVotes {
		i := env.senderIdx(a.Sender)
		if i < 0 {
			return ve.Violationf("C06:bundle-voter", "bundle contains unknown equivocator %v", a.Sender)
		}
		if seen[i] {
			return ve.Violationf("C06:bundle-duplicate", "bundle contains voter %c twice", 'a'+i)
		}
		seen[i] = true
		if y.ref.second[i] < 0 {
			return ve.Violationf("C06:bundle-false-equivocator", "bundle lists %c as equivocator, who did not equivocate", 'a'+i)
		}
		k0, k1 := env.valueIdx(y.step, a.Proposals[0]), env.valueIdx(y.step, a.Proposals[1])
		f, s := int(y.ref.first[i]), int(y.ref.second[i])
		if k0 == k1 || !((k0 == f && k1 == s) || (k0 == s && k1 == f)) {
			return ve.Violationf("C06:bundle-eq-pair", "equivocation pair of %c is (%s,%s), the sender voted %c then %c", 'a'+i, y.valName(a.Proposals[0]), y.valName(a.Proposals[1]), 'x'+f, 'x'+s)
		}
		if a.Sigs[0] != tab[i][k0].Sig || a.Sigs[1] != tab[i][k1].Sig || a.Cred != tab[i][k0].Cred.UnauthenticatedCredential {
			real := env.verifyBundle(b)
			if real == "" {
				real = "accepts it"
			}
			return ve.Violationf("C06:bundle-vote-content", "equivocation pair of %c in the emitted bundle does not carry the two accepted votes (real unauthenticatedBundle.verify: %.160s)", 'a'+i, real)
		}
		weight += env.v.weights[i]
	}
	if weight < env.v.thr {
		return ve.Violationf("C06:bundle-weight", "bundle for %c has weight %d < threshold %d", 'x'+which, weight, env.v.thr)
	}
	if msg := env.verifyBundle(b); msg != "" {
		return ve.Violationf("C06:bundle-verify", "bundle emitted with the threshold does not pass unauthenticatedBundle.verify: %s", msg)
	}
	return nil
}

func TestVerif_C06(t *testing.T) {
	r := ve.NewRun("C06", "model_checking")
	steps := []step{soft, cert, next}
	variants := []c06Variant{
		{name: "w1122", n: 4, weights: [c06NSenders]uint64{1, 1, 2, 2}, thr: 4},
		{name: "w1111", n: 4, weights: [c06NSenders]uint64{1, 1, 1, 1}, thr: 3},
	}
	if ve.Thorough() {
		// a fifth sender: the state space is no longer exhausted at depth 7
		variants = append(variants, c06Variant{name: "w11122", n: 5, weights: [c06NSenders]uint64{1, 1, 1, 2, 2}, thr: 5})
	}
	depth := ve.Pick(7, 9)
	var cov ve.Coverage
	cov.Exhaustive = true
	var bundles int
	for _, v := range variants {
		env, err := c06MakeEnv(v, steps)
		if err != nil {
			t.Fatalf("harness setup: %v", err)
		}
		for _, s := range steps {
			s := s
			q := &ve.Seq[*c06Sys]{
				Name:   fmt.Sprintf("votetracker/%s/step%d", v.name, s),
				NumOps: v.n * c06NValues,
				OpName: func(op int) string {
					return fmt.Sprintf("%c:%c", 'a'+op/c06NValues, 'x'+op%c06NValues)
				},
				New:      func() *c06Sys { return c06New(env, s) },
				Apply:    func(y *c06Sys, op int) (bool, error) { return y.apply(op) },
				Key:      func(y *c06Sys) string { return y.key() },
				Observe:  func(y *c06Sys) string { return y.last },
				MaxDepth: depth,
			}
			res := q.Explore(r)
			cov.AddSeq(res)
			if !res.Exhaustive {
				cov.Exhaustive = false
			}
			if r.Violations() > 0 {
				break
			}
		}
		if r.Violations() == 0 {
			ok, err := c06ExploreAggregator(r, env, steps, &cov)
			if err != nil {
				t.Fatalf("harness setup (aggregator family): %v", err)
			}
			if !ok {
				cov.Exhaustive = false
			}
		}
		env.memoMu.Lock()
		bundles += len(env.memo)
		env.memoMu.Unlock()
		env.avv.Quit()
		if r.Violations() > 0 {
			break
		}
	}
	r.Set("distinct_bundles_verified_with_real_signatures", bundles)
	cov.Rule = fmt.Sprintf("BFS over all sequences (length <= %d) of voteAccepted(sender in a..d, value in x,y,z) incl. duplicates, equivocations and votes of known equivocators, on the real voteTracker behind a real stepRouter/contract, for weights (1,1,2,2; thr 4) and (1,1,1,1; thr 3) (thorough: also 5 senders 1,1,1,2,2; thr 5) x steps soft, cert, next; real signed votes; states merged by the complete tracker+contract+reference state; sequences leaving the honest-majority assumption are pruned by the reference tally. Family 2: BFS over all sequences of <= %d events of voteVerified(sender, value) and bundleVerified(every verifying bundle with <= 1 equivocation pair) on the real voteAggregator behind the real router chain, same reference and oracle", depth, ve.Pick(7, 9))
	r.Assume("sequences after which the equivocators alone reach the threshold or two values both reach it are outside the protocol assumption (code Panicf's by design) and are not explored")
	r.Assume("private consensus version with committee size == total online stake, so credential weight == stake for every (round, period, step); checked for every vote used")
	r.Assume("one-time signature / VRF primitives (libsodium) are trusted")
	if r.Finish(cov) > 0 {
		t.Fatal("violations")
	}
}
