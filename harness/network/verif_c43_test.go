package network

// C43 — Peers never deliver oversized or duplicate gossip to handlers. Entry point of part 1 (sequential parts
// a, b, c); part 2 (E-SCHED) is TestVerif_C43_sched in verif_c43_sched_test.go. The per-part headers state the
// alphabets, bounds and oracles (verif_c43_a_slurper_test.go, verif_c43_b_peer_test.go, verif_c43_c_filter_test.go).

import (
	"testing"
	"time"

	ve "github.com/algorand/go-algorand/verifeng"
)

func TestVerif_C43(t *testing.T) {
	r := ve.NewRun("C43", "model_checking")
	var cov ve.Coverage
	cov.Exhaustive = true
	st, tr := c43PartA(r)
	cov.States += st
	cov.Transitions += tr
	ea := r.Evals()
	r.Set("a_evaluations", ea)
	tb := time.Now()
	c43PartB(r)
	r.Set("wall_b_s", int(time.Since(tb).Seconds()))
	tc := time.Now()
	defer func() { r.Set("wall_c_s", int(time.Since(tc).Seconds())) }()
	r.Set("b_evaluations", r.Evals()-ea)
	cov.Traces += r.Evals()
	c43PartCSeq(r, &cov)
	cov.Rule = "E-ENUM: LimitedReaderSlurper x every composition/fault of messages 0..max+3 (4 configs) + Reset from every distinct reached state; " +
		"wsPeer.readLoop x every tag x {limit-1,limit,limit+1} x boundary chunkings, zstd proposals {limit-1,limit,limit+1,4*limit}, vpack votes, all tag pairs; " +
		"E-SEQ: 2 peers x 3 msgs x 3 tags, all sequences <= 6 through two real read loops sharing a 2x2 messageFilter"
	r.Assume("the websocket library's own frame handling is replaced by a scripted wsPeerWebsocketConn (SetReadLimit recorded, not emulated)")
	r.Note("observation (not a violation, lead's classification): a message with an unknown or deprecated tag has no per-tag limit (Tag.MaxMessageSize()==0 and LimitedReaderSlurper treats 0 as unlimited): it is buffered up to the global MaxMessageLength cap (6 MiB), dropped, and the peer is not disconnected (readLoop carries a TODO); see findings/C43-unknown-tag-unbounded")
	r.Assume("for unknown/deprecated tags only 'never handed to a handler' and 'buffered bytes <= MaxMessageLength' are demanded")
	r.Assume("messageFilter.nonce pinned to zero so that digests are identical in every explored instance (irrelevant to the property)")
	if n := r.Finish(cov); n > 0 {
		t.Fatalf("%d violation(s)", n)
	}
}
